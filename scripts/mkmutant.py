#!/usr/bin/env python3
"""mkmutant.py <name> <property> <file> <old> <new> [<expect-obligation-substring>]
Creates /verif/mutants/<name>.patch (unified diff against /repo HEAD working tree) for the must-fail corpus."""
import sys, subprocess, os, tempfile, shutil
name, prop, f, old, new = sys.argv[1:6]
expect = sys.argv[6] if len(sys.argv) > 6 else ""
src = open(os.path.join('/repo', f)).read()
if src.count(old) != 1:
    sys.exit("pattern occurs %d times in %s" % (src.count(old), f))
d = tempfile.mkdtemp()
a = os.path.join(d, 'a', f); b = os.path.join(d, 'b', f)
os.makedirs(os.path.dirname(a)); os.makedirs(os.path.dirname(b))
open(a, 'w').write(src); open(b, 'w').write(src.replace(old, new))
r = subprocess.run(['diff', '-u', 'a/' + f, 'b/' + f], cwd=d, capture_output=True, text=True)
open('/verif/mutants/%s.patch' % name, 'w').write("# property=%s expect=%s\n" % (prop, expect) + r.stdout)
shutil.rmtree(d)
print("wrote", name)
