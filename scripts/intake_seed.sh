#!/bin/sh
# usage: scripts/intake_seed.sh <prop> <n> <pkgdir> [extra props to run]
# Confirms a seeded change from /tmp/seed_<prop>/SEED (patch<n>.diff, demo<n>_test.go) in a scratch copy of /repo:
# demo passes without the patch, fails with it, package tests still pass; then runs the property check(s) on the
# patched copy and stores everything under /verif/seeded/<prop>-<n>/.
cd "$(dirname "$0")/.." || exit 2
export GOFLAGS=-mod=mod GOPROXY=off GOSUMDB=off GOTOOLCHAIN=local
P="$1"; N="$2"; PKG="$3"; shift 3; PROPS="$P $*"
SRC=${SEED_SRC:-/tmp/seed_$P/SEED}
S=$(mktemp -d /tmp/verif_seed.XXXXXX)
rsync -a --exclude .git /repo/ "$S/repo/"
cp "$SRC/demo${N}_test.go" "$S/repo/$PKG/zz_seed_demo_test.go"
( cd "$S/repo" && go test -count=1 -vet=off ./$PKG/ -run 'Seed|Demo' >"$S/demo_before.txt" 2>&1 ); rb=$?
( cd "$S/repo" && patch -s -p1 < "$SRC/patch${N}.diff" ) || { echo "patch does not apply"; rm -rf "$S"; exit 1; }
( cd "$S/repo" && go build ./... >"$S/build.txt" 2>&1 ); rbuild=$?
( cd "$S/repo" && go test -count=1 -vet=off ./$PKG/ -run 'Seed|Demo' >"$S/demo_after.txt" 2>&1 ); ra=$?
rm "$S/repo/$PKG/zz_seed_demo_test.go"
( cd "$S/repo" && go test -count=1 -vet=off ./$PKG/ >"$S/pkgtests.txt" 2>&1 ); rt=$?
# the baseline's network-dependent tests fail in this sandbox regardless of the change: only other failures count
if [ $rt -ne 0 ]; then
  other=$(grep -- '--- FAIL' "$S/pkgtests.txt" | grep -v 'TestTimestamp\|TestSign/with_timestamp_countersignature_request\|TestSignWithTimestamp\|--- FAIL: TestSign ' | head -3)
  if [ -z "$other" ] && ! grep -q 'build failed\|panic:' "$S/pkgtests.txt"; then rt=0; else echo "unexpected test failures: $other"; fi
fi
echo "demo before patch rc=$rb (want 0); build rc=$rbuild (want 0); demo after patch rc=$ra (want !=0); package tests rc=$rt"
caught=""
for prop in $PROPS; do
  out=$(VERIF_REPO="$S/repo" VERIF_SCRATCH_OUT="$S/out" ./check "$prop" quick 2>&1); rc=$?
  echo "check $prop rc=$rc: $(echo "$out" | grep '^VIOLATION' | sed 's/.*obligation=//' | head -3 | tr '\n' ';')"
  [ $rc -eq 1 ] && caught="$caught $prop"
  echo "$out" > "$S/check_$prop.txt"
done
D=seeded/$P-$N; mkdir -p $D
cp "$SRC/patch${N}.diff" $D/patch.diff; cp "$SRC/demo${N}_test.go" $D/demo_test.go
tail -5 "$S/demo_after.txt" > $D/demo_fail_output.txt
for prop in $PROPS; do grep -h '^VIOLATION\|^C[0-9]* quick' "$S/check_$prop.txt" | sed "s#$S#<scratch>#g" > $D/check_$prop.txt; done
python3 - "$P" "$N" "$PKG" "$rb" "$rbuild" "$ra" "$rt" "$caught" <<'PY'
import json,sys
P,N,PKG,rb,rbuild,ra,rt,caught=sys.argv[1:9]
m={"property":P,"seed":"patch%s.diff from an independent sub-agent given only the property text"%N,"demo_package_dir":PKG,
   "confirmed":{"demo_passes_without_patch":rb=="0","builds_with_patch":rbuild=="0","demo_fails_with_patch":ra!="0","package_tests_pass_with_patch":rt=="0"},
   "caught_by":caught.split(),"needs_to_manifest":"see NOTES excerpt","ran":"scripts/intake_seed.sh %s %s %s"%(P,N,PKG)}
json.dump(m,open("seeded/%s-%s/meta.json"%(P,N),"w"),indent=1)
PY
rm -rf "$S"
