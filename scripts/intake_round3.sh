#!/bin/sh
# usage: scripts/intake_round3.sh <prop> <pkgdir-of-demo1> <pkgdir-of-demo2> [extra props]
# third seeding round: SEED/patch1,2 become seeds <prop>-5 and <prop>-6 (or -3/-4 when those are free)
cd "$(dirname "$0")/.." || exit 2
P="$1"; PK1="$2"; PK2="$3"; shift 3
SRC=/tmp/seed_$P/SEED
n=3; [ -d seeded/$P-3 ] && n=5
m=$((n+1))
cp $SRC/patch1.diff $SRC/patch$n.diff; cp $SRC/demo1_test.go $SRC/demo${n}_test.go
cp $SRC/patch2.diff $SRC/patch$m.diff; cp $SRC/demo2_test.go $SRC/demo${m}_test.go
scripts/intake_seed.sh $P $n $PK1 "$@"
scripts/intake_seed.sh $P $m $PK2 "$@"
mkdir -p seeded/notes; cp $SRC/NOTES.md seeded/notes/$P-round3-NOTES.md
