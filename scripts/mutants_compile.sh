#!/bin/sh
# Checks that every mutant matching the filter still compiles (a must-fail change has to be a compiling one).
cd "$(dirname "$0")/.." || exit 2
export GOFLAGS=-mod=mod GOPROXY=off GOSUMDB=off GOTOOLCHAIN=local
S=$(mktemp -d /tmp/verif_mc.XXXXXX)
rc=0
for pf in mutants/*"$1"*.patch; do
  rm -rf "$S/repo"; rsync -a --exclude .git /repo/ "$S/repo/"
  (cd "$S/repo" && patch -s -p1 < "$OLDPWD/$pf" >/dev/null 2>&1) || { echo "NOAPPLY $pf"; rc=1; continue; }
  (cd "$S/repo" && go build ./... 2>&1 | head -3) | grep -q . && { echo "NOCOMPILE $pf"; (cd "$S/repo" && go build ./... 2>&1 | head -3); rc=1; }
done
rm -rf "$S"
exit $rc
