#!/bin/sh
# usage: scripts/intake_round4.sh <prop> [extra props]
# fourth seeding round (/tmp/seed4_<prop>/SEED): patch1/patch2 are breaking changes (-> seeded/<prop>-<n>), patch3 is a
# behaviour-preserving refactoring (-> benign/<prop>-r4; every check whose cone contains a touched file's package must stay quiet)
cd "$(dirname "$0")/.." || exit 2
P="$1"; shift
R=${ROUND:-4}; SRC=/tmp/seed${R}_$P/SEED
PK1=$(sed -n 's/^`\{0,1\}demo1: *`\{0,1\}\([a-zA-Z0-9_/]*\).*/\1/p' $SRC/NOTES.md | head -1)
PK2=$(sed -n 's/^`\{0,1\}demo2: *`\{0,1\}\([a-zA-Z0-9_/]*\).*/\1/p' $SRC/NOTES.md | head -1)
[ -n "$PK1" ] && [ -n "$PK2" ] || { echo "cannot read demo dirs from NOTES.md: '$PK1' '$PK2'"; exit 1; }
n=3; while [ -d seeded/$P-$n ]; do n=$((n+1)); done
m=$((n+1))
cp $SRC/patch1.diff $SRC/patch$n.diff; cp $SRC/demo1_test.go $SRC/demo${n}_test.go
cp $SRC/patch2.diff $SRC/patch$m.diff; cp $SRC/demo2_test.go $SRC/demo${m}_test.go
SEED_SRC=$SRC scripts/intake_seed.sh $P $n $PK1 "$@"
SEED_SRC=$SRC scripts/intake_seed.sh $P $m $PK2 "$@"
mkdir -p seeded/notes benign/$P-r$R; cp $SRC/NOTES.md seeded/notes/$P-round$R-NOTES.md
cp $SRC/patch3.diff benign/$P-r$R/patch.diff
echo "$P $*" > benign/$P-r$R/props
scripts/benign.sh $P-r$R
