#!/bin/sh
# For each mutant matching the filter: does the check produce a failing input that reproduces on the real (mutated) code?
cd "$(dirname "$0")/.." || exit 2
for pf in mutants/*"$1"*.patch; do
  prop=$(head -1 "$pf" | sed -n 's/.*property=\([A-Z0-9]*\).*/\1/p')
  S=$(mktemp -d /tmp/verif_rs.XXXXXX)
  rsync -a --exclude .git /repo/ "$S/repo/"
  (cd "$S/repo" && patch -s -p1 < "$OLDPWD/$pf" >/dev/null 2>&1)
  out=$(VERIF_REPO="$S/repo" VERIF_SCRATCH_OUT="$S/out" ./check "$prop" quick 2>&1)
  n=$(echo "$out" | grep -c '^VIOLATION'); r=$(echo "$out" | grep '^VIOLATION' | grep -vc 'no-failing-input-found')
  why=$(python3 - "$S" <<'PY'
import json,glob,sys
rs=[]
for f in sorted(glob.glob(sys.argv[1]+'/out/replay/*.json')):
    d=json.load(open(f)); rp=d.get('replay') or {}
    if rp.get('reproduced_on_real_code'): rs.append('REPRODUCED')
    elif rp.get('attempted'): rs.append('ran:'+ (rp.get('note') or 'not reproduced'))
    else: rs.append(str(rp.get('reason'))[:60])
print('; '.join(rs[:4]))
PY
)
  echo "$(basename $pf): violations=$n with-input=$r [$why]"
  rm -rf "$S"
done
