#!/bin/sh
# Must-fail corpus: every patch under /verif/mutants (and /verif/seeded/*/patch.diff) is applied to a scratch copy
# of /repo and the named property's check must report a violation there (exit 1). Scratch copies are removed.
# usage: scripts/selftest.sh [name-substring]
cd "$(dirname "$0")/.." || exit 2
FILTER="$1"
fail=0; n=0
run_one() { # patchfile prop
  pf="$1"; prop="$2"
  S=$(mktemp -d /tmp/verif_mut.XXXXXX)
  rsync -a --exclude .git /repo/ "$S/repo/"
  if ! (cd "$S/repo" && patch -s -p1 < "$pf" >/dev/null 2>&1); then echo "SELFTEST $pf: patch does not apply"; rm -rf "$S"; fail=1; return; fi
  out=$(VERIF_NO_REPLAY=1 VERIF_REPO="$S/repo" VERIF_SCRATCH_OUT="$S/out" ./check "$prop" quick 2>&1); rc=$?
  if [ $rc -eq 1 ] && echo "$out" | grep -q "^VIOLATION property=$prop"; then
    echo "killed   $(basename $pf) [$prop]: $(echo "$out" | grep '^VIOLATION' | head -2 | sed 's/.*obligation=//' | tr '\n' ' ')"
  else
    echo "SURVIVED $(basename $pf) [$prop] rc=$rc: $(echo "$out" | tail -1)"; fail=1
  fi
  rm -rf "$S"
}
for pf in mutants/*.patch; do
  [ -f "$pf" ] || continue
  case "$pf" in *"$FILTER"*) ;; *) continue;; esac
  prop=$(head -1 "$pf" | sed -n 's/.*property=\([A-Z0-9]*\).*/\1/p')
  n=$((n+1)); run_one "$PWD/$pf" "$prop" &
  if [ $((n % 4)) -eq 0 ]; then wait; fi
done
wait
for d in seeded/*/; do
  [ -f "$d/patch.diff" ] || continue
  case "$d" in *"$FILTER"*) ;; *) continue;; esac
  for prop in $(python3 -c "import json,sys; m=json.load(open('$d/meta.json')); print(' '.join(m.get('caught_by', [m['property']])))"); do
    run_one "$PWD/$d/patch.diff" "$prop"
  done
done
exit $fail
