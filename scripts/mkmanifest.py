#!/usr/bin/env python3
"""Regenerates /verif/MANIFEST.json from properties.cfg.json + the per-property texts below."""
import json, subprocess, os
V = os.path.dirname(os.path.dirname(os.path.abspath(__file__)))
cfg = json.load(open(os.path.join(V, 'properties.cfg.json')))
texts = json.load(open(os.path.join(V, 'scripts', 'manifest_texts.json')))
props = [json.loads(l) for l in open(os.path.join(V, 'properties.jsonl'))]
hooks_commits = subprocess.run(['git', '-C', '/repo', 'log', '--format=%H %s'], capture_output=True, text=True).stdout.splitlines()
hook_shas = [l.split()[0] for l in hooks_commits if 'verif hooks' in l]
checks, na = [], []
for p in props:
    pid = p['id']
    t = texts.get(pid, {})
    if pid in cfg and not t.get('not_applicable'):
        checks.append({
            "property_id": pid,
            "quick_cmd": f"./check {pid} quick",
            "thorough_cmd": f"./check {pid} thorough",
            "evidence_file": f"/verif/evidence/{pid}.json",
            "replay_cmd_template": "./check " + pid + " --replay {path}",
            "engine": "govc",
            "level_claimed": {"category": "proof", "text": t.get('level', ''), "design_ref": t.get('design_ref', 'DESIGN.md §6 ' + pid)},
            "level_note": t.get('note', ''),
            "technique": t.get('technique', "contract-based deductive verification: WP/VC generation over go/ssa of the real functions, contracts in guarded comment files, z3/cvc5 portfolio"),
        })
    else:
        na.append({"property_id": pid, "reason": t.get('not_applicable', 'no contract within reach decides it yet; see DESIGN.md')})
m = {
    "version": 1,
    "setup_cmd": "./setup.sh",
    "hooks": {
        "guard": "verif",
        "enable": "go build -tags verif ./... (the guarded files zz_verif_contracts.go are comment-only; govc loads /repo with -tags=verif and reads the //@ blocks)",
        "baseline_off_cmd": "cd /repo && GOFLAGS=-mod=mod GOPROXY=off GOSUMDB=off go test -json -vet=off -count=1 -timeout 25m ./...",
        "source_commits": hook_shas,
        "add_only": True,
    },
    "engines": [{"name": "govc", "path": "/verif/govc", "serves_properties": [c["property_id"] for c in checks],
                 "kind_free_text": "self-written deductive verifier for Go: loads /repo's working tree with go/packages, builds go/ssa (naive form), binds Gobra-style //@ contracts from guarded comment files, generates verification conditions by forward symbolic execution with loops cut at invariants and callees replaced by contracts, discharges them with z3 4.8.12, z3 5.1.0 and cvc5 1.0.3"}],
    "checks": checks,
    "not_applicable": na,
    "notes": "All checks are proofs over the real code; every assumption (dependency contracts, modelling abstractions) is listed in each evidence file. See DESIGN.md.",
}
json.dump(m, open(os.path.join(V, 'MANIFEST.json'), 'w'), indent=1)
print("checks:", [c['property_id'] for c in checks], "na:", [n['property_id'] for n in na])
