#!/usr/bin/env python3
"""Prints the markdown table 'seed | file changed | first failing obligation | checks that exit 1' for seeded/<id>-<n> with n >= argv[1] (default 3),
from the files scripts/intake_seed.sh stored (meta.json, patch.diff, check_<prop>.txt)."""
import json, os, re, sys, glob
lo = int(sys.argv[1]) if len(sys.argv) > 1 else 3
rows = []
for d in sorted(glob.glob('/verif/seeded/C*-*')):
    name = os.path.basename(d); p, n = name.split('-')
    if int(n) < lo or not os.path.exists(d + '/meta.json'): continue
    m = json.load(open(d + '/meta.json'))
    files = sorted(set(re.findall(r'^\+\+\+ b/(\S+)', open(d + '/patch.diff').read(), re.M)))
    first = ''
    cf = d + '/check_%s.txt' % p
    if os.path.exists(cf):
        for l in open(cf):
            mm = re.search(r'obligation=(.*?) status=', l)
            if mm: first = mm.group(1); break
    if len(first) > 110: first = first[:107] + '...'
    rows.append('| %s | %s | `%s` | %s |' % (name, ', '.join(files), first, ' '.join(m.get('caught_by', [])) or '**missed**'))
print('| seed | file changed | first failing obligation | checks that exit 1 |\n|---|---|---|---|')
print('\n'.join(rows))
