// automut enumerates small syntactic mutations of one Go source file (operator swaps, negated conditions, deleted
// statements, break/continue swaps, boolean literal flips) and writes each mutated file with a one-line description.
// It is the generator behind scripts/automut.py, which checks that govc kills every compiling mutant of the functions
// under contract (survivors are listed for inspection: an equivalent mutant, a hole in a contract, or a hole in govc).
//
// usage: automut <file.go> <outdir>      -> <outdir>/<n>.go and <outdir>/<n>.txt ("func|line|description")
package main

import (
	"bytes"
	"fmt"
	"go/ast"
	"go/parser"
	"go/printer"
	"go/token"
	"os"
	"path/filepath"
)

type mutation struct {
	fn    string
	line  int
	desc  string
	apply func() func() // applies the mutation, returns undo
}

func main() {
	file, out := os.Args[1], os.Args[2]
	fset := token.NewFileSet()
	f, err := parser.ParseFile(fset, file, nil, parser.ParseComments)
	if err != nil {
		fmt.Fprintln(os.Stderr, err)
		os.Exit(2)
	}
	var muts []mutation
	swap := map[token.Token][]token.Token{
		token.EQL: {token.NEQ}, token.NEQ: {token.EQL},
		token.LSS: {token.LEQ, token.GEQ}, token.LEQ: {token.LSS}, token.GTR: {token.GEQ, token.LEQ}, token.GEQ: {token.GTR},
		token.LAND: {token.LOR}, token.LOR: {token.LAND},
		token.ADD: {token.SUB}, token.SUB: {token.ADD},
	}
	for _, d := range f.Decls {
		fd, ok := d.(*ast.FuncDecl)
		if !ok || fd.Body == nil {
			continue
		}
		name := fd.Name.Name
		if fd.Recv != nil && len(fd.Recv.List) > 0 {
			var b bytes.Buffer
			printer.Fprint(&b, fset, fd.Recv.List[0].Type)
			name = "(" + b.String() + ")." + name
		}
		line := func(p token.Pos) int { return fset.Position(p).Line }
		// statement deletion / swaps inside blocks
		var visitBlock func(list *[]ast.Stmt)
		visitBlock = func(list *[]ast.Stmt) {
			for i := range *list {
				i := i
				st := (*list)[i]
				switch s := st.(type) {
				case *ast.ExprStmt, *ast.IncDecStmt:
					muts = append(muts, mutation{name, line(st.Pos()), "delete statement", func() func() {
						old := (*list)[i]
						(*list)[i] = &ast.EmptyStmt{Semicolon: old.Pos()}
						return func() { (*list)[i] = old }
					}})
				case *ast.AssignStmt:
					if s.Tok == token.ASSIGN || s.Tok == token.ADD_ASSIGN {
						muts = append(muts, mutation{name, line(st.Pos()), "delete assignment", func() func() {
							old := (*list)[i]
							(*list)[i] = &ast.EmptyStmt{Semicolon: old.Pos()}
							return func() { (*list)[i] = old }
						}})
					}
				case *ast.BranchStmt:
					if s.Label == nil && (s.Tok == token.BREAK || s.Tok == token.CONTINUE) {
						muts = append(muts, mutation{name, line(st.Pos()), "swap break/continue", func() func() {
							old := s.Tok
							if old == token.BREAK {
								s.Tok = token.CONTINUE
							} else {
								s.Tok = token.BREAK
							}
							return func() { s.Tok = old }
						}})
					}
				case *ast.IfStmt:
					if ret, ok := lastStmt(s.Body).(*ast.ReturnStmt); ok && s.Else == nil && s.Init == nil {
						_ = ret
						muts = append(muts, mutation{name, line(st.Pos()), "delete guarded return", func() func() {
							old := (*list)[i]
							(*list)[i] = &ast.EmptyStmt{Semicolon: old.Pos()}
							return func() { (*list)[i] = old }
						}})
					}
				}
			}
		}
		ast.Inspect(fd.Body, func(n ast.Node) bool {
			switch n := n.(type) {
			case *ast.BlockStmt:
				visitBlock(&n.List)
			case *ast.CaseClause:
				visitBlock(&n.Body)
			case *ast.BinaryExpr:
				for _, to := range swap[n.Op] {
					to := to
					muts = append(muts, mutation{name, line(n.OpPos), fmt.Sprintf("%s -> %s", n.Op, to), func() func() {
						old := n.Op
						n.Op = to
						return func() { n.Op = old }
					}})
				}
			case *ast.IfStmt:
				muts = append(muts, mutation{name, line(n.Cond.Pos()), "negate if condition", func() func() {
					old := n.Cond
					n.Cond = &ast.UnaryExpr{Op: token.NOT, X: &ast.ParenExpr{X: old}}
					return func() { n.Cond = old }
				}})
			case *ast.Ident:
				if n.Name == "true" || n.Name == "false" {
					muts = append(muts, mutation{name, line(n.Pos()), "flip " + n.Name, func() func() {
						old := n.Name
						if old == "true" {
							n.Name = "false"
						} else {
							n.Name = "true"
						}
						return func() { n.Name = old }
					}})
				}
			case *ast.UnaryExpr:
				if n.Op == token.NOT {
					// handled by replacing in parent is awkward; mutate operand instead: !x -> !!x is invalid; skip
				}
			case *ast.SwitchStmt:
				// swap the bodies of adjacent case clauses (a table mix-up)
				for ci := 0; ci+1 < len(n.Body.List); ci++ {
					a, aok := n.Body.List[ci].(*ast.CaseClause)
					b, bok := n.Body.List[ci+1].(*ast.CaseClause)
					if !aok || !bok || a.List == nil || b.List == nil {
						continue
					}
					muts = append(muts, mutation{name, line(a.Pos()), "swap bodies of adjacent cases", func() func() {
						a.Body, b.Body = b.Body, a.Body
						return func() { a.Body, b.Body = b.Body, a.Body }
					}})
				}
			case *ast.BasicLit:
				if n.Kind == token.INT && n.Value != "0" && n.Value != "1" && len(n.Value) < 6 {
					muts = append(muts, mutation{name, line(n.Pos()), "int literal " + n.Value + " + 1", func() func() {
						old := n.Value
						var v int
						fmt.Sscanf(old, "%d", &v)
						n.Value = fmt.Sprintf("%d", v+1)
						return func() { n.Value = old }
					}})
				}
				if n.Kind == token.INT && (n.Value == "0" || n.Value == "1") {
					muts = append(muts, mutation{name, line(n.Pos()), "int literal " + n.Value + " flipped", func() func() {
						old := n.Value
						if old == "0" {
							n.Value = "1"
						} else {
							n.Value = "0"
						}
						return func() { n.Value = old }
					}})
				}
			}
			return true
		})
	}
	os.MkdirAll(out, 0o755)
	for i, m := range muts {
		undo := m.apply()
		var b bytes.Buffer
		cfg := printer.Config{Mode: printer.UseSpaces | printer.TabIndent, Tabwidth: 8}
		if err := cfg.Fprint(&b, fset, f); err != nil {
			undo()
			continue
		}
		undo()
		os.WriteFile(filepath.Join(out, fmt.Sprintf("%04d.go", i)), b.Bytes(), 0o644)
		os.WriteFile(filepath.Join(out, fmt.Sprintf("%04d.txt", i)), []byte(fmt.Sprintf("%s|%d|%s\n", m.fn, m.line, m.desc)), 0o644)
	}
	fmt.Println(len(muts))
}

func lastStmt(b *ast.BlockStmt) ast.Stmt {
	if b == nil || len(b.List) == 0 {
		return nil
	}
	return b.List[len(b.List)-1]
}
