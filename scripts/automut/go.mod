module automut

go 1.23.0
