#!/bin/sh
# Must-pass corpus: behaviour-preserving refactorings (benign/<name>/patch.diff, written by independent sub-agents that
# saw only the property text) are applied to a scratch copy of /repo; the checks listed in benign/<name>/props must
# exit 0 there (no alarm on code where the property holds). Scratch copies are removed.
# usage: scripts/benign.sh [name-substring]
cd "$(dirname "$0")/.." || exit 2
FILTER="$1"; fail=0
for d in benign/*/; do
  [ -f "$d/patch.diff" ] || continue
  case "$d" in *"$FILTER"*) ;; *) continue;; esac
  S=$(mktemp -d /tmp/verif_benign.XXXXXX)
  rsync -a --exclude .git /repo/ "$S/repo/"
  if ! (cd "$S/repo" && patch -s -p1 < "$OLDPWD/$d/patch.diff" >/dev/null 2>&1); then echo "BENIGN $d: patch does not apply"; rm -rf "$S"; fail=1; continue; fi
  for prop in $(cat "$d/props"); do
    out=$(VERIF_NO_REPLAY=1 VERIF_REPO="$S/repo" VERIF_SCRATCH_OUT="$S/out" ./check "$prop" quick 2>&1); rc=$?
    if [ $rc -eq 0 ]; then echo "quiet    $(basename $d) [$prop]"; elif [ -f "$d/expected-alarm" ]; then
      echo "EXPECTED-ALARM $(basename $d) [$prop]: $(head -1 "$d/expected-alarm")"; else
      echo "ALARM    $(basename $d) [$prop] rc=$rc: $(echo "$out" | grep '^VIOLATION' | head -3 | sed 's/.*obligation=//' | tr '\n' ' ')"; fail=1; fi
  done
  rm -rf "$S"
done
exit $fail
