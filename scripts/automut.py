#!/usr/bin/env python3
"""automut.py <repo-relative .go file> [jobs]
Mutation campaign for one source file: every syntactic mutant produced by bin/automut that still compiles is given to
govc (function level first, then the whole package); mutants no obligation notices are printed as SURVIVED with the
diff. Results are appended to notes/automut/<file>.log. Scratch copies live under /tmp and are removed."""
import sys, os, subprocess, tempfile, shutil, glob, concurrent.futures, difflib
V = os.path.dirname(os.path.dirname(os.path.abspath(__file__)))
rel = sys.argv[1]; jobs = int(sys.argv[2]) if len(sys.argv) > 2 else 4
env = dict(os.environ, GOFLAGS='-mod=mod', GOPROXY='off', GOSUMDB='off', GOTOOLCHAIN='local', GOVC_NORETRY='1')
mdir = tempfile.mkdtemp(prefix='automut_m_')
subprocess.run([V + '/bin/automut', '/repo/' + rel, mdir], check=True, stdout=subprocess.DEVNULL)
muts = sorted(glob.glob(mdir + '/*.go'))
pkgdir = os.path.dirname(rel)
pkgname = open('/repo/' + rel).read().split('package ', 1)[1].split()[0]
orig = open('/repo/' + rel).read()
os.makedirs(V + '/notes/automut', exist_ok=True)
log = open(V + '/notes/automut/' + rel.replace('/', '_') + '.log', 'w')

import re
def names(bad):
    out = set()
    for l in bad:
        m = re.search(r'(FAIL:\S+|UNSUPPORTED\S*|unsupported)\s+(\S+)', l)
        out.add(m.group(2) if m else l.strip()[:80])
    return out

def run(scratch, filt):
    r = subprocess.run([V + '/bin/govc', '-repo', scratch + '/repo', '-specs', V + '/specs', '-out', scratch + '/out', '-timeout', '8s', '-func', filt],
                       capture_output=True, text=True, env=env, timeout=1500)
    out = r.stdout + r.stderr
    bad = [l for l in out.splitlines() if 'FAIL' in l or 'UNSUPPORTED' in l or 'BIND ERROR' in l or 'unsupported' in l or 'load:' in l]
    return bad, out

def work(chunk):
    scratch = tempfile.mkdtemp(prefix='automut_s_')
    subprocess.run(['rsync', '-a', '--exclude', '.git', '/repo/', scratch + '/repo/'], check=True)
    res = []
    # obligations that fail on the unchanged package in -func mode (functions outside every property cone)
    base_bad, _ = run(scratch, pkgdir + '.')
    baseline = names(base_bad)
    for m in chunk:
        fn, line, desc = open(m[:-3] + '.txt').read().strip().split('|', 2)
        src = open(m).read()
        open(scratch + '/repo/' + rel, 'w').write(src)
        b = subprocess.run(['go', 'build', './' + pkgdir + '/'], cwd=scratch + '/repo', capture_output=True, text=True, env=env)
        if b.returncode != 0:
            res.append((m, fn, line, desc, 'nocompile', '')); continue
        if fn.startswith('('):
            recv, name = fn[1:].split(').')
            filt = pkgname + '.' + recv.lstrip('*') + ').' + name
        else:
            filt = '/' + pkgname + '.' + fn
            if pkgdir.count('/') == 0:
                filt = pkgdir + '.' + fn
        try:
            bad, out = run(scratch, filt)
            bad = [l for l in bad if not (names([l]) <= baseline)]
            if '== ' not in out:
                bad2, out2 = run(scratch, pkgdir + '.')
                bad2 = [l for l in bad2 if not (names([l]) <= baseline)]
                status = 'killed' if bad2 else 'SURVIVED(no function match; package level)'
                bad = bad2
            elif bad:
                status = 'killed'
            else:
                bad2, out2 = run(scratch, pkgdir + '.')
                bad2 = [l for l in bad2 if not (names([l]) <= baseline)]
                bad = bad2
                status = 'killed(package level)' if bad2 else 'SURVIVED'
        except subprocess.TimeoutExpired:
            status, bad = 'killed(timeout)', []
        res.append((m, fn, line, desc, status, bad[0][:160] if bad else ''))
    shutil.rmtree(scratch)
    return res

chunks = [muts[i::jobs] for i in range(jobs)]
surv = 0; tot = 0
with concurrent.futures.ThreadPoolExecutor(jobs) as ex:
    for res in ex.map(work, chunks):
        for m, fn, line, desc, status, why in res:
            tot += 1
            log.write('%s %s:%s %s [%s] %s\n' % (status, rel, line, fn, desc, why))
            if status.startswith('SURVIVED'):
                surv += 1
                d = ''.join(difflib.unified_diff(orig.splitlines(True), open(m).read().splitlines(True), 'a/' + rel, 'b/' + rel, n=1))
                print('%s %s:%s %s [%s]\n%s' % (status, rel, line, fn, desc, d))
                log.write(d)
log.close()
shutil.rmtree(mdir)
print('automut %s: %d mutants, %d survived' % (rel, tot, surv))
