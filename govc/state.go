package main

import (
	"fmt"
	"go/types"

	"golang.org/x/tools/go/ssa"
)

// Value is an engine value: an SMT term plus Go type information, or an engine-level pointer/closure/tuple.
type Value struct {
	Term string
	Typ  types.Type
	Sort string
	Ptr  *Pointer
	Clo  *Closure
	Tup  []Value
	// for range iterators
	Iter *IterState
}

type Closure struct {
	Fn       *ssa.Function
	Bindings []Value
}

type Step struct {
	IsIndex bool
	Field   int
	Index   string       // term
	Struct  types.Type   // struct type containing the field (for Field steps)
	St      *types.Struct
}

// Pointer is an engine-level pointer: a local cell or a heap reference with an access path.
type Pointer struct {
	Cell  *ssa.Alloc // non-nil: engine-local cell of the frame `Frame`
	Frame int        // frame id owning the cell
	Base  string     // Ref term (heap)
	Steps []Step
	Elem  types.Type // pointee type after steps
	// For element pointers: the sort of elements of the backing array
	ElemBaseSort string
}

type IterState struct {
	Instr   *ssa.Range
	MapRef  string
	Visited string // (Array K Bool)
	KSort   string
	VSort   string
	IsStr   bool
}

type deferred struct {
	call *ssa.Defer
	fn   Value
	args []Value
}

type Frame struct {
	ID     int
	Fn     *ssa.Function
	Regs   map[ssa.Value]Value
	Locals map[*ssa.Alloc]Value
	Defers []deferred
	// continuation on return (nil for the outermost frame)
	OnReturn func(st *State, results []Value)
	OnPanic  func(st *State, pv Value)
	Prefix   string // name prefix for obligations inside inlined frames
	GoMode   bool   // executing a goroutine body (ownership rule)
	GoRoot     bool // this frame is the goroutine's own function
	Owned      []ownedLoc
	SpawnAlloc string
	OnPanicGo  string
	Panicking bool
	PanicVal  Value
	Recovered bool
	CallSite  string
}

func (f *Frame) clone() *Frame {
	g := *f
	g.Regs = make(map[ssa.Value]Value, len(f.Regs))
	for k, v := range f.Regs {
		g.Regs[k] = v
	}
	g.Locals = make(map[*ssa.Alloc]Value, len(f.Locals))
	for k, v := range f.Locals {
		g.Locals[k] = v
	}
	g.Defers = append([]deferred(nil), f.Defers...)
	return &g
}

type CallRec struct {
	Name string
	Args []Value
	Rets []Value
}

// State is one symbolic state along a path.
type State struct {
	Frames []*Frame
	Heap   map[string]string // heap array name -> current term
	AllocBase string          // symbolic base of the allocation counter
	AllocOff  int
	PC     []string
	pcSet  map[string]bool
	Calls  map[string]string // call-log counters: name -> Int term (number of calls so far)
	CallLog []CallRec
	Ghost  map[string]string // misc ghost terms (lent sets, chan counts)
	Trace  []string
	Depth  int
	Epoch  int // heap epoch: arrays first touched after a havoc-all get a new base constant
	LoopIt map[*ssa.BasicBlock]string // symbolic `it` captured at loop heads
	Visits map[*ssa.BasicBlock]int
}

func (s *State) clone() *State {
	t := &State{AllocBase: s.AllocBase, AllocOff: s.AllocOff, Depth: s.Depth, Epoch: s.Epoch}
	t.Frames = make([]*Frame, len(s.Frames))
	for i, f := range s.Frames {
		t.Frames[i] = f.clone()
	}
	t.Heap = make(map[string]string, len(s.Heap))
	for k, v := range s.Heap {
		t.Heap[k] = v
	}
	t.PC = append([]string(nil), s.PC...)
	t.pcSet = make(map[string]bool, len(s.pcSet))
	for k := range s.pcSet {
		t.pcSet[k] = true
	}
	t.Calls = make(map[string]string, len(s.Calls))
	for k, v := range s.Calls {
		t.Calls[k] = v
	}
	t.CallLog = append([]CallRec(nil), s.CallLog...)
	t.Ghost = make(map[string]string, len(s.Ghost))
	for k, v := range s.Ghost {
		t.Ghost[k] = v
	}
	t.Trace = append([]string(nil), s.Trace...)
	t.LoopIt = make(map[*ssa.BasicBlock]string, len(s.LoopIt))
	for k, v := range s.LoopIt {
		t.LoopIt[k] = v
	}
	t.Visits = make(map[*ssa.BasicBlock]int, len(s.Visits))
	for k, v := range s.Visits {
		t.Visits[k] = v
	}
	return t
}

func (s *State) top() *Frame { return s.Frames[len(s.Frames)-1] }

func (s *State) Assume(c string) {
	if c == "true" || s.pcSet[c] {
		return
	}
	s.pcSet[c] = true
	s.PC = append(s.PC, c)
}

func (s *State) AllocTerm() string {
	if s.AllocOff == 0 {
		return s.AllocBase
	}
	return fmt.Sprintf("(+ %s %d)", s.AllocBase, s.AllocOff)
}

func (s *State) frameByID(id int) *Frame {
	for _, f := range s.Frames {
		if f.ID == id {
			return f
		}
	}
	return nil
}
