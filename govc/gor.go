package main

// Goroutines, channels, WaitGroup and select under the ownership rule (DESIGN §2.9).
//
// A `go f(args)` whose closure is visible is executed at the spawn point (sequential inlining) in goroutine mode:
//   * every store to memory that existed before the spawn must hit a location named by the site's `owns` clause;
//     each owned location may be lent to one goroutine only (ghost set lent), the parent may not write a lent slot;
//   * captured variables read by the goroutine must not be assigned by the parent after the first spawn (static);
//   * wg.Add must precede the spawn, the closure's first deferred call must be wg.Done, wg.Wait joins (clears lent),
//     every return/panic exit of the function requires that nothing is lent;
//   * channel sends need proven capacity; select with default is resolved by the ghost element count;
//   * a panic that escapes a goroutine is a failed obligation (it would abort the process).
// Given these obligations the goroutines' footprints are disjoint, so any interleaving is equivalent, for this
// function's memory, to the sequential inlining that the functional postconditions are proved against.

import (
	"fmt"
	"go/types"
	"strings"

	"golang.org/x/tools/go/ssa"
)

type ownedLoc struct {
	arr  string // heap array name
	base string
	idx  string // "" for whole object
}

func ghostInt(st *State, key string) int {
	var n int
	fmt.Sscanf(st.Ghost[key], "%d", &n)
	return n
}

func (x *Exec) lentKey(arr, base string) string { return "lent:" + arr + "|" + base }

func (x *Exec) lentArr(st *State, arr, base string) string {
	if t, ok := st.Ghost[x.lentKey(arr, base)]; ok {
		return t
	}
	if st.Ghost["go.havocLent"] == "true" {
		// first use after a loop havoc: unknown set
		t := x.D.Fresh("lent", "(Array Int Bool)")
		st.Ghost[x.lentKey(arr, base)] = t
		return t
	}
	return "((as const (Array Int Bool)) false)"
}

func (x *Exec) lentAny(st *State) string {
	if t, ok := st.Ghost["go.lentAny"]; ok {
		return t
	}
	return "false"
}

func (x *Exec) panicked(st *State) string {
	if t, ok := st.Ghost["componentPanicked"]; ok {
		return t
	}
	return "false"
}

// syncCall interprets sync.WaitGroup methods. Returns true if handled.
func (x *Exec) syncCall(st *State, ins ssa.Instruction, full string, args []Value, cont func(*State, Value)) bool {
	switch full {
	case "(*sync.WaitGroup).Add":
		n := 0
		fmt.Sscanf(args[1].Term, "%d", &n)
		if fmt.Sprintf("%d", n) != args[1].Term || n < 0 {
			x.unsupported("wg.Add with a non-constant argument")
		}
		st.Ghost["go.pendingAdds"] = fmt.Sprintf("%d", ghostInt(st, "go.pendingAdds")+n)
		cont(st, Value{})
		return true
	case "(*sync.WaitGroup).Done":
		// accounted for structurally at the spawn (first deferred call of the goroutine)
		cont(st, Value{})
		return true
	case "(*sync.WaitGroup).Wait":
		if ghostInt(st, "go.pendingAdds") != 0 {
			x.emit(st, "go", x.labelFor(ins, "go", "wait-unmatched-add"), "false", "wg.Wait with an Add that no goroutine will match would block forever")
		}
		st.Ghost["go.lentAny"] = "false"
		for k := range st.Ghost {
			if strings.HasPrefix(k, "lent:") {
				delete(st.Ghost, k)
			}
		}
		cont(st, Value{})
		return true
	}
	return false
}

func (x *Exec) ownsClause(fn *ssa.Function) string {
	if x.FC == nil {
		return ""
	}
	suffix := strings.TrimPrefix(fn.Name(), x.Fn.Name())
	for _, o := range x.FC.Owns {
		f := strings.SplitN(strings.TrimSpace(o), " ", 2)
		if len(f) == 2 && f[0] == suffix {
			return strings.TrimSpace(f[1])
		}
	}
	return ""
}

func (x *Exec) doGo(st *State, ins *ssa.Go, cont func(*State, Value)) {
	call := &ins.Call
	var fn *ssa.Function
	var bindings []Value
	switch v := call.Value.(type) {
	case *ssa.MakeClosure:
		c := x.val(st, v)
		fn, bindings = c.Clo.Fn, c.Clo.Bindings
	case *ssa.Function:
		fn = v
	default:
		fv := x.val(st, call.Value)
		if fv.Clo != nil {
			fn, bindings = fv.Clo.Fn, fv.Clo.Bindings
		}
	}
	if fn == nil || len(fn.Blocks) == 0 || call.IsInvoke() {
		x.fail("go statement with an unknown function in %s", st.top().Fn.Name())
	}
	var args []Value
	for _, a := range call.Args {
		args = append(args, x.val(st, a))
	}
	site := x.labelFor(ins, "go", strings.TrimPrefix(fn.Name(), x.Fn.Name()))
	// (1) Add dominates the spawn
	if ghostInt(st, "go.pendingAdds") < 1 {
		x.emit(st, "go", site+":add-before-spawn", "false", "wg.Add(1) must precede the go statement")
	} else {
		st.Ghost["go.pendingAdds"] = fmt.Sprintf("%d", ghostInt(st, "go.pendingAdds")-1)
	}
	// (2) first deferred call of the goroutine is wg.Done
	doneFirst := false
	for _, i2 := range fn.Blocks[0].Instrs {
		if d, ok := i2.(*ssa.Defer); ok {
			if c := d.Call.StaticCallee(); c != nil && c.String() == "(*sync.WaitGroup).Done" {
				doneFirst = true
			}
			break
		}
	}
	if !doneFirst {
		x.emit(st, "go", site+":deferred-done", "false", "the goroutine's outermost deferred call must be wg.Done")
	}
	// (3) captured variables are not assigned by the parent after the spawn
	x.checkSharedVars(st, ins, fn, call, site)
	// (4) ownership
	var owned []ownedLoc
	if oc := x.ownsClause(fn); oc != "" {
		env := &Env{x: x, st: st, old: x.init, vars: map[string]Value{}, cf: x.CF}
		for i, p := range fn.Params {
			if i < len(args) {
				env.vars[p.Name()] = args[i]
			}
		}
		for i, fv := range fn.FreeVars {
			if i < len(bindings) {
				env.vars[fv.Name()] = x.load(st, bindings[i], false)
			}
		}
		env.clause = Clause{Src: "owns " + oc, File: x.CF.Path}
		for _, item := range splitTop(oc, ',') {
			e, err := ParseExpr(strings.TrimSpace(item))
			if err != nil {
				env.errf("%v", err)
			}
			ie, ok := e.(*EIndex)
			if !ok {
				env.errf("owns item must be slice[index]")
			}
			sl := env.eval(ie.X)
			idx := env.eval(ie.I)
			slt, ok := types.Unalias(sl.Typ).Underlying().(*types.Slice)
			if !ok {
				env.errf("owns item must index a slice")
			}
			loc := ownedLoc{arr: x.TM.ElemArray(x.TM.Key(slt.Elem())), base: app("sbase", sl.Term), idx: idx.Term}
			la := x.lentArr(st, loc.arr, loc.base)
			x.emit(st, "go", site+":lend-once["+strings.TrimSpace(item)+"]", Not(Select(la, loc.idx)), "an owned slot may be lent to one goroutine only")
			x.emit(st, "go", site+":owned-in-bounds["+strings.TrimSpace(item)+"]", fmt.Sprintf("(and (<= 0 %s) (< %s (slen %s)))", loc.idx, loc.idx, sl.Term), "owned slot exists")
			st.Ghost[x.lentKey(loc.arr, loc.base)] = Store(la, loc.idx, "true")
			owned = append(owned, loc)
		}
	}
	st.Ghost["go.lentAny"] = "true"
	spawnAlloc := st.AllocTerm()
	// run the goroutine body here (sequential inlining)
	x.inlineWith(st, ins, fn, bindings, args, func(st *State, _ Value) { cont(st, Value{}) }, func(fr *Frame) {
		fr.GoMode = true
		fr.GoRoot = true
		fr.Owned = owned
		fr.SpawnAlloc = spawnAlloc
		fr.OnPanicGo = site
	})
}

// checkSharedVars: a captured variable of the goroutine must not be stored to by the parent in any block
// reachable from the spawn.
func (x *Exec) checkSharedVars(st *State, ins *ssa.Go, fn *ssa.Function, call *ssa.CallCommon, site string) {
	mc, ok := call.Value.(*ssa.MakeClosure)
	if !ok {
		return
	}
	parent := ins.Parent()
	reach := map[*ssa.BasicBlock]bool{}
	var stack []*ssa.BasicBlock
	for _, s := range ins.Block().Succs {
		stack = append(stack, s)
	}
	for len(stack) > 0 {
		b := stack[len(stack)-1]
		stack = stack[:len(stack)-1]
		if reach[b] {
			continue
		}
		reach[b] = true
		stack = append(stack, b.Succs...)
	}
	isAfter := func(b *ssa.BasicBlock, i2 ssa.Instruction) bool {
		if reach[b] {
			return true
		}
		if b == ins.Block() {
			after := false
			for _, k := range b.Instrs {
				if k == ins {
					after = true
					continue
				}
				if k == i2 {
					return after
				}
			}
		}
		return false
	}
	for bi, bind := range mc.Bindings {
		a, ok := bind.(*ssa.Alloc)
		if !ok {
			continue
		}
		for _, b := range parent.Blocks {
			for _, i2 := range b.Instrs {
				if s, ok := i2.(*ssa.Store); ok && s.Addr == a && isAfter(b, i2) {
					x.emit(st, "go", fmt.Sprintf("%s:shared-var[%s]", site, fn.FreeVars[bi].Name()), "false", "a variable captured by a goroutine is assigned by the parent after the spawn")
				}
			}
		}
	}
}

// goWriteCheck: in goroutine mode a store to memory that existed at the spawn must hit an owned slot;
// outside, the parent may not write a lent slot.
func (x *Exec) goWriteCheck(st *State, p *Pointer, ins ssa.Instruction) {
	var root *Frame
	for i := len(st.Frames) - 1; i >= 0; i-- {
		if st.Frames[i].GoRoot {
			root = st.Frames[i]
			break
		}
		if !st.Frames[i].GoMode {
			break
		}
	}
	arr, base, idx := "", p.Base, ""
	if len(p.Steps) > 0 && p.Steps[0].IsIndex {
		arr = x.TM.ElemArray(p.ElemBaseSort)
		idx = p.Steps[0].Index
	}
	lab := "?"
	if ins != nil {
		if s, ok := ins.(*ssa.Store); ok {
			lab = x.labelFor(ins, "go.write", describe(s.Addr))
		}
	}
	if root == nil {
		// parent: must not write a lent slot
		if arr != "" {
			if la, ok := st.Ghost[x.lentKey(arr, base)]; ok {
				x.emit(st, "go", "parent-write["+lab+"]", Not(Select(la, idx)), "the parent writes a slot that is lent to a running goroutine")
			}
		}
		return
	}
	conds := []string{app(">=", base, root.SpawnAlloc)}
	if strings.HasPrefix(base, "(elemref ") {
		parts := splitSexp(base[1 : len(base)-1])
		if len(parts) == 3 {
			conds = append(conds, app(">=", parts[1], root.SpawnAlloc))
		}
	}
	for _, o := range root.Owned {
		if arr == o.arr && idx != "" {
			conds = append(conds, And(Eq(base, o.base), Eq(idx, o.idx)))
		}
	}
	x.emit(st, "go", "owns["+lab+"]", Or(conds...), "a goroutine may only write memory it allocated or a slot it owns")
}

// ---------- channels

func (x *Exec) chanGhost(st *State, ch string, what string) (string, bool) {
	t, ok := st.Ghost["chan"+what+":"+ch]
	return t, ok
}

func (x *Exec) doSend(st *State, ins *ssa.Send) {
	ch := x.val(st, ins.Chan)
	n, ok1 := x.chanGhost(st, ch.Term, "len")
	c, ok2 := x.chanGhost(st, ch.Term, "cap")
	cl, ok3 := x.chanGhost(st, ch.Term, "closed")
	if !ok1 || !ok2 || !ok3 {
		x.fail("send on a channel not created by this function")
	}
	x.emit(st, "chan", x.labelFor(ins, "send", describe(ins.Chan)), And(Not(Eq(ch.Term, "0")), Not(cl), app("<", n, c)), "send must not block or panic: channel open with free capacity")
	st.Ghost["chanlen:"+ch.Term] = simplifyPlus1(n)
}

func (x *Exec) doRecv(st *State, ins *ssa.UnOp, ch Value) Value {
	x.fail("blocking channel receive unsupported in %s", st.top().Fn.Name())
	return Value{}
}

func (x *Exec) doSelect(st *State, ins *ssa.Select, cont func(*State)) {
	if ins.Blocking || len(ins.States) != 1 || ins.States[0].Dir != types.RecvOnly {
		x.fail("only `select { case v := <-ch: ...; default: }` is supported")
	}
	ch := x.val(st, ins.States[0].Chan)
	n, ok := x.chanGhost(st, ch.Term, "len")
	if !ok {
		x.fail("select on a channel not created by this function")
	}
	et := types.Unalias(ins.States[0].Chan.Type()).Underlying().(*types.Chan).Elem()
	mkRes := func(st *State, idx string, okv string, v Value) {
		st.top().Regs[ins] = Value{Tup: []Value{intV(idx), boolV(okv), v}}
	}
	nonEmpty := app(">", n, "0")
	// receive path
	st2 := st.clone()
	st2.Assume(nonEmpty)
	v := x.mk(x.D.Fresh("recv", x.TM.Sort(et)), et)
	if v.Sort == SIface {
		// values sent on this channel were recovered panic values: non-nil
		st2.Assume(Not(Eq(app("itag", v.Term), "0")))
	}
	st2.Ghost["chanlen:"+ch.Term] = fmt.Sprintf("(- %s 1)", n)
	mkRes(st2, "0", "true", v)
	cont(st2)
	// default path
	st.Assume(Not(nonEmpty))
	mkRes(st, "(- 1)", "false", x.mk(x.TM.Zero(et), et))
	cont(st)
}
