package main

import (
	"golang.org/x/tools/go/ssa"
)

// Goroutines, channels and select under the ownership rule (DESIGN §2.9). Filled in by gor_impl when available.

func (x *Exec) doGo(st *State, ins *ssa.Go, cont func(*State, Value)) {
	x.fail("go statement unsupported in %s", st.top().Fn.Name())
}

func (x *Exec) doSelect(st *State, ins *ssa.Select, cont func(*State)) {
	x.fail("select unsupported in %s", st.top().Fn.Name())
}

func (x *Exec) doSend(st *State, ins *ssa.Send) {
	x.fail("channel send unsupported in %s", st.top().Fn.Name())
}

func (x *Exec) doRecv(st *State, ins *ssa.UnOp, ch Value) Value {
	x.fail("channel receive unsupported in %s", st.top().Fn.Name())
	return Value{}
}

func (x *Exec) goWriteCheck(st *State, p *Pointer, ins ssa.Instruction) {}
