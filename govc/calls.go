package main

import (
	"os"
	"regexp"
	"fmt"
	"go/types"
	"strings"

	"golang.org/x/tools/go/ssa"
)

// ---------- call dispatch

func (x *Exec) doCall(st *State, ins ssa.Instruction, call *ssa.CallCommon, cont func(*State, Value)) {
	var args []Value
	if call.IsInvoke() {
		recv := x.val(st, call.Value)
		args = append(args, recv)
		for _, a := range call.Args {
			args = append(args, x.val(st, a))
		}
		x.invoke(st, ins, call, recv, args, cont)
		return
	}
	for _, a := range call.Args {
		args = append(args, x.val(st, a))
	}
	switch f := call.Value.(type) {
	case *ssa.Builtin:
		x.builtin(st, ins, f, call, args, cont)
		return
	case *ssa.Function:
		x.callFunction(st, ins, f, nil, args, cont)
		return
	case *ssa.MakeClosure:
		clo := x.val(st, f)
		x.callFunction(st, ins, clo.Clo.Fn, clo.Clo.Bindings, args, cont)
		return
	}
	fv := x.val(st, call.Value)
	if fv.Clo != nil {
		x.callFunction(st, ins, fv.Clo.Fn, fv.Clo.Bindings, args, cont)
		return
	}
	// unknown function value: default external contract
	sig := call.Signature()
	x.DefaultExterns["dynamic call in "+st.top().Fn.Name()] = true
	x.emit(st, "nil", x.labelFor(ins, "nilfunc", describe(call.Value)), Not(Eq(fv.Term, "0")), "")
	cont(st, x.freshResults(st, "dyn", sig.Results()))
}

func (x *Exec) freshResults(st *State, prefix string, res *types.Tuple) Value {
	var vs []Value
	for i := 0; i < res.Len(); i++ {
		t := res.At(i).Type()
		v := x.mk(x.D.Fresh(prefix+".r", x.TM.Sort(t)), t)
		x.assumeTypeInv(st, v, false)
		vs = append(vs, v)
	}
	if len(vs) == 1 {
		return vs[0]
	}
	return Value{Tup: vs}
}

func (x *Exec) callFunction(st *State, ins ssa.Instruction, fn *ssa.Function, bindings []Value, args []Value, cont func(*State, Value)) {
	full := fn.String()
	if o := fn.Origin(); o != nil {
		full = o.String()
		if x.genericCall(st, ins, full, fn, args, cont) {
			return
		}
	}
	if x.FC != nil && len(x.FC.Asserts) > 0 {
		aenv := x.localEnv(st)
		for i, a := range args {
			aenv.vars[fmt.Sprintf("arg%d", i)] = a
		}
		x.anchors(st, "before call "+x.anchorName(ins, full), aenv)
	}
	// closures and synthetic wrappers: inline
	if fn.Parent() != nil || len(bindings) > 0 {
		x.inline(st, ins, fn, bindings, args, cont)
		return
	}
	if fn.Synthetic != "" && fn.Pkg == nil && len(fn.Blocks) > 0 {
		// bound method / thunk wrappers
		x.inline(st, ins, fn, bindings, args, cont)
		return
	}
	if strings.HasPrefix(fn.Name(), "init#") && fn.Pkg != nil && x.Fn.Pkg != nil && fn.Pkg == x.Fn.Pkg {
		// user-written init functions of the package under initialisation: part of the initialiser
		x.inline(st, ins, fn, nil, args, cont)
		return
	}
	if fn.Name() == "init" && fn.Synthetic != "" {
		// package initialisers of imported packages: their effect is summarised by global invariants
		cont(st, Value{})
		return
	}
	if fn.Pkg != nil && x.P.IsRepoPkg(fn.Pkg.Pkg.Path()) {
		fc := x.P.Contracts[full]
		if fc == nil && len(fn.Blocks) > 0 && len(x.loopsOf(fn)) == 0 && !x.onStack(st, fn) && len(st.Frames) < 6 {
			// a loop-free repo function without a contract (typically a helper extracted by a refactoring) is verified
			// in the context of its caller: its body is executed in place, so the caller's obligations speak about what
			// the helper really does instead of failing for want of a contract
			x.Inlined[x.P.ShortName(fn)+" (no contract: body verified at each call site)"] = true
			x.inline(st, ins, fn, nil, args, cont)
			return
		}
		if fc == nil {
			// no contract and not inlinable (loops need invariants, recursion): modularity demands a contract
			x.emit(st, "nocontract", x.P.ShortName(fn), "false", "")
			cont(st, x.freshResults(st, "nc", fn.Signature.Results()))
			return
		}
		if fc.Inline {
			x.Inlined[x.P.ShortName(fn)] = true
			x.inline(st, ins, fn, nil, args, cont)
			return
		}
		x.UsedContracts[x.P.ShortName(fn)] = true
		x.callByContract(st, ins, full, fc, fn.Signature, paramNames(fn), args, cont, false)
		return
	}
	// dependency
	if x.syncCall(st, ins, full, args, cont) {
		return
	}
	if r, ok := x.interpreted(st, full, args); ok {
		cont(st, r)
		return
	}
	if fc := x.P.Externs[full]; fc != nil {
		x.UsedExterns[full] = true
		if full == "fmt.Errorf" {
			inner := cont
			cont = func(st *State, res Value) {
				x.errorfWraps(st, res, args)
				inner(st, res)
			}
		}
		x.callByContract(st, ins, full, fc, fn.Signature, fc.Params, args, cont, true)
		return
	}
	x.DefaultExterns[full] = true
	cont(st, x.freshResults(st, "ext", fn.Signature.Results()))
}

// errorfWraps: errors.Is(fmt.Errorf(format, a...), t) implies errors.Is(a[k], t) for some argument (the result
// itself is a fresh object, never equal to t). Only used when errors.Is has a pure spec.
func (x *Exec) errorfWraps(st *State, res Value, args []Value) {
	if fc := x.P.Externs["errors.Is"]; fc == nil || !fc.Pure || len(args) < 2 {
		return
	}
	sl := args[1]
	n := x.lenOf(st, sl, false, nil)
	var k int
	if _, err := fmt.Sscanf(n, "%d", &k); err != nil || fmt.Sprintf("%d", k) != n || k > 16 {
		return
	}
	anyT := types.NewInterfaceType(nil, nil)
	is := x.D.Fun("pure.errors.Is", []string{SIface, SIface}, SBool)
	inner := Select(x.elemArr(st, x.TM.Key(anyT)), app("sbase", sl.Term))
	var alts []string
	for j := 0; j < k; j++ {
		alts = append(alts, app(is, Select(inner, fmt.Sprintf("%d", j)), "t!q"))
	}
	st.Assume(fmt.Sprintf("(forall ((t!q Iface)) (! (=> (%s %s t!q) %s) :pattern ((%s %s t!q))))", is, res.Term, Or(alts...), is, res.Term))
}

func paramNames(fn *ssa.Function) []string {
	var ns []string
	for _, p := range fn.Params {
		ns = append(ns, p.Name())
	}
	return ns
}

func (x *Exec) invoke(st *State, ins ssa.Instruction, call *ssa.CallCommon, recv Value, args []Value, cont func(*State, Value)) {
	it := call.Value.Type()
	full := "(" + types.TypeString(types.Unalias(it), nil) + ")." + call.Method.Name()
	sig := call.Method.Type().(*types.Signature)
	if x.FC != nil && len(x.FC.Asserts) > 0 {
		aenv := x.localEnv(st)
		for i, a := range args {
			aenv.vars[fmt.Sprintf("arg%d", i)] = a
		}
		x.anchors(st, "before call "+x.anchorName(ins, full), aenv)
	}
	// nil interface receiver panics
	x.emit(st, "nil", x.labelFor(ins, "nil", describe(call.Value)+"."+call.Method.Name()), Not(Eq(app("itag", recv.Term), "0")), "")
	st.Assume(Not(Eq(app("itag", recv.Term), "0")))
	if r, ok := x.interpreted(st, full, args); ok {
		cont(st, r)
		return
	}
	fc := x.P.Externs[full]
	if fc == nil {
		// method of an embedded interface? try the interface that declares the method
		if n, ok := types.Unalias(it).(*types.Named); ok {
			_ = n
		}
		recvT := sig.Recv()
		if recvT != nil {
			alt := "(" + types.TypeString(types.Unalias(recvT.Type()), nil) + ")." + call.Method.Name()
			fc = x.P.Externs[alt]
			if fc != nil {
				full = alt
			}
		}
	}
	if fc != nil {
		x.UsedExterns[full] = true
		x.callByContract(st, ins, full, fc, sig, fc.Params, args, cont, true)
		return
	}
	x.DefaultExterns[full] = true
	cont(st, x.freshResults(st, "inv", sig.Results()))
}

// interpreted externals: given an exact meaning by the engine.
func (x *Exec) interpreted(st *State, full string, args []Value) (Value, bool) {
	b := func(t string) (Value, bool) { return boolV(t), true }
	switch full {
	case "(time.Time).Before":
		return b(app("<", args[0].Term, args[1].Term))
	case "(time.Time).After":
		return b(app(">", args[0].Term, args[1].Term))
	case "(time.Time).Equal":
		return b(Eq(args[0].Term, args[1].Term))
	case "(time.Time).IsZero":
		return b(Eq(args[0].Term, "0"))
	case "(time.Time).UTC", "(time.Time).Local":
		return args[0], true
	case "(time.Time).Truncate":
		// integer instants (assumed at or after the zero Time): t - t mod d for d > 0
		return x.mk(Ite(app(">", args[1].Term, "0"), app("-", args[0].Term, app("mod", args[0].Term, args[1].Term)), args[0].Term), args[0].Typ), true
	case "(time.Time).Unix":
		return intV(app("div", args[0].Term, "1000000000")), true
	case "(*math/big.Int).Cmp":
		return Value{}, false
	}
	return Value{}, false
}

// resultEnv binds result names.
func bindResults(env *Env, sig *types.Signature, res Value) {
	var rs []Value
	if res.Tup != nil {
		rs = res.Tup
	} else if sig.Results().Len() == 1 {
		rs = []Value{res}
	}
	for i, r := range rs {
		env.vars[fmt.Sprintf("result%d", i)] = r
		if n := sig.Results().At(i).Name(); n != "" && n != "_" {
			env.vars[n] = r
		}
	}
	if len(rs) > 0 {
		env.vars["result"] = rs[0]
		last := sig.Results().At(len(rs) - 1).Type()
		if types.TypeString(last, nil) == "error" {
			env.vars["err"] = rs[len(rs)-1]
		}
		if len(rs) > 1 {
			env.vars["results"] = Value{Tup: rs}
		}
	}
}

func (x *Exec) callByContract(st *State, ins ssa.Instruction, full string, fc *FuncContract, sig *types.Signature,
	pnames []string, args []Value, cont func(*State, Value), extern bool) {
	cf := x.P.FileOf[fc]
	short := full
	if !extern {
		short = strings.ReplaceAll(full, x.P.ModPath+"/", "")
	}
	env := &Env{x: x, st: st, vars: map[string]Value{}, cf: cf}
	for i, a := range args {
		if i < len(pnames) {
			env.vars[pnames[i]] = a
		}
		env.vars[fmt.Sprintf("arg%d", i)] = a
	}
	// variadic externs: extra args ignored
	label := x.callLabel(ins, short)
	for ci, c := range fc.Requires {
		g := x.evalBool(env, c.E, c)
		lab := c.Label
		if lab == "" {
			lab = fmt.Sprintf("%d", ci)
		}
		x.emit(st, "requires", label+":"+lab, g, c.Src)
		st.Assume(g)
	}
	if !extern && !fc.Pure && x.Fn.Name() != "init" {
		// functions of this module assume the global invariants at entry ...
		x.checkGlobalInvs(st, "at "+label)
	}
	if !fc.Pure {
		x.emitSmoke(st, "before "+label)
	}
	if fc.MayPanic {
		// a caller-supplied component (or a function that calls one) may exit by panic
		ps := st.clone()
		ps.Ghost["componentPanicked"] = "true"
		pv := x.mk(x.D.Fresh("panicv", SIface), types.NewInterfaceType(nil, nil))
		ps.Assume(Not(Eq(app("itag", pv.Term), "0")))
		x.doPanic(ps, pv, "component:"+label)
	}
	pre := st.clone()
	preAlloc := st.AllocTerm()
	// results
	var res Value
	n := sig.Results().Len()
	if fc.Pure {
		var rs []Value
		for i := 0; i < n; i++ {
			r := x.pureApp(full, i, n, sig, args)
			x.assumeTypeInv(st, r, false)
			rs = append(rs, r)
		}
		if n == 1 {
			res = rs[0]
		} else {
			res = Value{Tup: rs}
		}
		x.pureAxiom(full, fc, sig, pnames, extern)
	} else {
		// callee may allocate
		nb := x.D.Fresh("A", SInt)
		st.Assume(fmt.Sprintf("(>= %s %s)", nb, preAlloc))
		noteAllocBase(nb, st.AllocBase, st.AllocOff)
		st.AllocBase, st.AllocOff = nb, 0
		res = x.freshResults(st, "r."+lastName(short), sig.Results())
	}
	// frame: havoc modifies
	for _, ms := range fc.ModSrc {
		x.havocTarget(st, env, ms, ins, label, true)
	}
	for _, cn := range fc.CallsDecl {
		key := x.callKey(st, cn)
		c := x.callCount(st, key)
		nc := x.D.Fresh("nc."+cn, SInt)
		st.Assume(fmt.Sprintf("(>= %s %s)", nc, c))
		st.Calls[key] = nc
	}
	if fc.Logged {
		c := x.callCount(st, lastName(short))
		st.Calls[lastName(short)] = simplifyPlus1(c)
		st.CallLog = append(st.CallLog, CallRec{Name: lastName(short), Args: args, Rets: flatten(res)})
	}
	if !extern && !fc.Pure {
		// ... and re-establish them at exit
		for _, g := range x.changedGlobalInvs(st) {
			x.D.giSet[g.term] = true
			st.Assume(g.term)
		}
	}
	post := &Env{x: x, st: st, old: pre, vars: env.vars, cf: cf, allocAtCall: preAlloc}
	post = post.child()
	bindResults(post, sig, res)
	for _, c := range fc.Ensures {
		if c.UsesLog {
			// evidence about the callee's own call log: meaningless in the caller's log, never assumed
			continue
		}
		st.Assume(x.evalBool(post, c.E, c))
	}
	if !fc.Pure {
		x.emitSmoke(st, "after "+label)
	}
	cont(st, res)
}

// changedGlobalInvs lists the global invariants assumed at entry whose footprint (the heap arrays the assumed term
// mentions) has been written on this path other than at freshly allocated locations, with their value in st.
// Writes at fresh locations cannot touch what an invariant reads: everything it reaches from the package-level
// variables existed at entry.
func (x *Exec) changedGlobalInvs(st *State) (out []struct {
	c    *Clause
	lab  string
	term string
}) {
	for _, cf := range x.P.Files {
		for ci := range cf.GlobalInv {
			c := &cf.GlobalInv[ci]
			g0, ok := x.giInit[c]
			if !ok {
				continue
			}
			changed := false
			for _, name := range heapNamesIn(g0) {
				cur, ok := st.Heap[name]
				if !ok {
					continue
				}
				if stripFreshStores(cur) != name+"@0" {
					changed = true
					if os.Getenv("GOVC_DEBUG_GI") != "" {
						fmt.Fprintf(os.Stderr, "GI %s: %s changed in %s: %.200s\n", c.Label, name, x.short, cur)
					}
					break
				}
			}
			if !changed {
				continue
			}
			genv := &Env{x: x, st: st, old: st, vars: map[string]Value{}, cf: cf}
			g1 := x.evalBool(genv, c.E, *c)
			if g1 == g0 {
				continue
			}
			lab := c.Label
			if lab == "" {
				lab = fmt.Sprintf("%d", ci)
			}
			out = append(out, struct {
				c    *Clause
				lab  string
				term string
			}{c, lab, g1})
		}
	}
	return out
}

func (x *Exec) checkGlobalInvs(st *State, where string) {
	for _, g := range x.changedGlobalInvs(st) {
		x.emit(st, "global-invariant", where+":"+g.lab, g.term, g.c.Src)
	}
}

var heapNameRe = regexp.MustCompile(`([A-Z]+\.[^ ()]+)@0`)

// heapNamesIn lists the heap arrays (by name) whose entry-state constant occurs in term t.
func heapNamesIn(t string) []string {
	seen := map[string]bool{}
	var out []string
	for _, m := range heapNameRe.FindAllStringSubmatch(t, -1) {
		if !seen[m[1]] {
			seen[m[1]] = true
			out = append(out, m[1])
		}
	}
	return out
}

// stripFreshStores peels (store a i v) layers whose index is a freshly allocated reference (or an element/field
// reference into one) off an array term.
func stripFreshStores(a string) string {
	for strings.HasPrefix(a, "(store ") {
		parts := splitSexp(a[1 : len(a)-1])
		if len(parts) != 4 {
			break
		}
		idx := parts[2]
		fresh := false
		if _, _, ok := freshRef(idx); ok {
			fresh = true
		} else if strings.HasPrefix(idx, "(elemref ") || strings.HasPrefix(idx, "(fieldref.") {
			ip := splitSexp(idx[1 : len(idx)-1])
			if len(ip) >= 2 {
				if _, _, ok := freshRef(ip[1]); ok {
					fresh = true
				}
			}
		}
		if !fresh {
			break
		}
		a = parts[1]
	}
	return a
}

func simplifyPlus1(c string) string {
	var n int
	if _, err := fmt.Sscanf(c, "%d", &n); err == nil && fmt.Sprintf("%d", n) == c {
		return fmt.Sprintf("%d", n+1)
	}
	return fmt.Sprintf("(+ %s 1)", c)
}

func flatten(v Value) []Value {
	if v.Tup != nil {
		return v.Tup
	}
	return []Value{v}
}

func lastName(s string) string {
	// "(*pkg/path.T).M" -> "T.M"; "pkg/path.F" -> "path.F"
	s = strings.TrimPrefix(s, "(")
	s = strings.Replace(s, ")", "", 1)
	s = strings.TrimPrefix(s, "*")
	if i := strings.LastIndex(s, "/"); i >= 0 {
		s = s[i+1:]
	}
	return s
}

func (x *Exec) callLabel(ins ssa.Instruction, short string) string {
	if ins == nil {
		return lastName(short)
	}
	if l, ok := x.callOrd[ins]; ok {
		return l
	}
	key := "call|" + lastName(short)
	k := x.labelCount[key]
	x.labelCount[key] = k + 1
	l := fmt.Sprintf("%s#%d", lastName(short), k)
	x.callOrd[ins] = l
	return l
}

// pureApp builds the uninterpreted application for result i of a pure function.
func (x *Exec) pureApp(full string, i, n int, sig *types.Signature, args []Value) Value {
	var sorts, terms []string
	for _, a := range args {
		s := a.Sort
		if a.Ptr != nil || a.Clo != nil {
			s = SInt
		}
		sorts = append(sorts, s)
		terms = append(terms, x.asTerm(a))
	}
	rt := sig.Results().At(i).Type()
	name := "pure." + sanitize(strings.ReplaceAll(full, x.P.ModPath+"/", ""))
	if n > 1 {
		name += fmt.Sprintf(".%d", i)
	}
	f := x.D.Fun(name, sorts, x.TM.Sort(rt))
	return x.mk(app(f, terms...), rt)
}

// pureAxiom adds forall params. pre => post[result := f(params)] once per pure function.
func (x *Exec) pureAxiom(full string, fc *FuncContract, sig *types.Signature, pnames []string, extern bool) {
	key := "pureax:" + full
	if x.D.Has(key) {
		return
	}
	x.D.Add(key, "; pure axiom for "+full)
	if len(fc.Ensures) == 0 {
		return
	}
	cf := x.P.FileOf[fc]
	env := &Env{x: x, st: x.init, old: x.init, vars: map[string]Value{}, cf: cf}
	var binders []string
	var args []Value
	// parameter types: receiver first
	var ptypes []types.Type
	if sig.Recv() != nil {
		ptypes = append(ptypes, sig.Recv().Type())
	}
	for i := 0; i < sig.Params().Len(); i++ {
		ptypes = append(ptypes, sig.Params().At(i).Type())
	}
	for i, pt := range ptypes {
		name := fmt.Sprintf("a%d!b", i)
		s := x.TM.Sort(pt)
		v := Value{Term: name, Sort: s, Typ: pt}
		args = append(args, v)
		binders = append(binders, fmt.Sprintf("(%s %s)", name, s))
		if i < len(pnames) {
			env.vars[pnames[i]] = v
		}
		env.vars[fmt.Sprintf("arg%d", i)] = v
	}
	n := sig.Results().Len()
	var rs []Value
	var pats []string
	for i := 0; i < n; i++ {
		r := x.pureApp(full, i, n, sig, args)
		rs = append(rs, r)
		pats = append(pats, r.Term)
	}
	var res Value
	if n == 1 {
		res = rs[0]
	} else {
		res = Value{Tup: rs}
	}
	var pre []string
	for _, c := range fc.Requires {
		pre = append(pre, x.evalBool(env, c.E, c))
	}
	penv := env.child()
	bindResults(penv, sig, res)
	var post []string
	for _, c := range fc.Ensures {
		post = append(post, x.evalBool(penv, c.E, c))
	}
	body := Implies(And(pre...), And(post...))
	if body == "true" {
		return
	}
	if len(binders) == 0 {
		x.D.Axiom(body)
		return
	}
	var ps []string
	for _, p := range pats {
		ps = append(ps, ":pattern ("+p+")")
	}
	x.D.Axiom(fmt.Sprintf("(forall (%s) (! %s %s))", strings.Join(binders, " "), body, strings.Join(ps, " ")))
}

// applyPure: f$(args) in a contract.
func (e *Env) applyPure(name, pkgPath string, argx []Expr) Value {
	x := e.x
	if pkgPath == "" && e.cf != nil {
		pkgPath = e.cf.PkgPath
	}
	full := pkgPath + "." + name
	fn := x.P.Funcs[full]
	if fn == nil {
		e.errf("unknown function %s$", full)
	}
	fc := x.P.Contracts[full]
	if fc == nil || !fc.Pure {
		e.errf("%s is not declared pure", full)
	}
	var args []Value
	for _, a := range argx {
		args = append(args, e.eval(a))
	}
	n := fn.Signature.Results().Len()
	x.pureAxiom(full, fc, fn.Signature, paramNames(fn), false)
	x.UsedContracts[x.P.ShortName(fn)] = true
	var rs []Value
	for i := 0; i < n; i++ {
		rs = append(rs, x.pureApp(full, i, n, fn.Signature, args))
	}
	if n == 1 {
		return rs[0]
	}
	return Value{Tup: rs}
}

// applyExternPure: pure dependency functions/methods used inside contracts.
func (x *Exec) applyExternPure(e *Env, full string, args []Value, sig *types.Signature) Value {
	if r, ok := x.interpreted(e.st, full, args); ok {
		return r
	}
	fc := x.P.Externs[full]
	if fc == nil || !fc.Pure {
		e.errf("no pure extern spec for %s", full)
	}
	if sig == nil {
		sig = x.externSig(full)
		if sig == nil {
			e.errf("cannot find signature of %s", full)
		}
	}
	x.UsedExterns[full] = true
	x.pureAxiom(full, fc, sig, fc.Params, true)
	n := sig.Results().Len()
	var rs []Value
	for i := 0; i < n; i++ {
		rs = append(rs, x.pureApp(full, i, n, sig, args))
	}
	if n == 1 {
		return rs[0]
	}
	return Value{Tup: rs}
}

func (x *Exec) externSig(full string) *types.Signature {
	if strings.HasPrefix(full, "(") {
		return nil
	}
	i := strings.LastIndex(full, ".")
	tp := x.P.TPkgs[full[:i]]
	if tp == nil {
		return nil
	}
	o := tp.Scope().Lookup(full[i+1:])
	if o == nil {
		return nil
	}
	s, _ := o.Type().(*types.Signature)
	return s
}

// ---------- inlining

func (x *Exec) onStack(st *State, fn *ssa.Function) bool {
	for _, f := range st.Frames {
		if f.Fn == fn {
			return true
		}
	}
	return false
}

func (x *Exec) inline(st *State, ins ssa.Instruction, fn *ssa.Function, bindings []Value, args []Value, cont func(*State, Value)) {
	if len(fn.Blocks) == 0 {
		x.fail("cannot inline %s: no body", fn.Name())
	}
	if len(st.Frames) > 12 {
		x.fail("inlining too deep at %s", fn.Name())
	}
	parent := st.top()
	fr := x.newFrame(st, fn)
	fr.GoMode = parent.GoMode
	for i, p := range fn.Params {
		if i < len(args) {
			fr.Regs[p] = args[i]
		}
	}
	for i, fv := range fn.FreeVars {
		if i < len(bindings) {
			fr.Regs[fv] = bindings[i]
		}
	}
	fr.OnReturn = func(st *State, results []Value) {
		st.Frames = st.Frames[:len(st.Frames)-1]
		var res Value
		if len(results) == 1 {
			res = results[0]
		} else if len(results) > 1 {
			res = Value{Tup: results}
		}
		cont(st, res)
	}
	fr.OnPanic = func(st *State, pv Value) {
		st.Frames = st.Frames[:len(st.Frames)-1]
		x.doPanic(st, pv, "propagated")
	}
	x.runBlock(st, fn.Blocks[0], nil)
}

// ---------- return, panic, defers

func (x *Exec) doReturn(st *State, ins *ssa.Return, results []Value) {
	fr := st.top()
	if fr.OnReturn != nil {
		fr.OnReturn(st, results)
		return
	}
	x.checkPost(st, ins, results)
}

func (x *Exec) retLabel(ins *ssa.Return) string {
	if ins == nil {
		return "recover"
	}
	if n, ok := x.retOrd[ins]; ok {
		return fmt.Sprintf("%d", n)
	}
	// ordinal by block index order
	n := 0
	for _, b := range x.Fn.Blocks {
		for _, i := range b.Instrs {
			if r, ok := i.(*ssa.Return); ok {
				x.retOrd[r] = n
				n++
			}
		}
	}
	return fmt.Sprintf("%d", x.retOrd[ins])
}

func (x *Exec) checkPost(st *State, ins *ssa.Return, results []Value) {
	x.emitSmoke(st, "return#"+x.retLabel(ins))
	// package initialiser: establishes the package's global invariants
	if x.Fn.Name() == "init" && x.Fn.Pkg != nil {
		for _, cf := range x.P.Files {
			if cf.PkgPath != x.Fn.Pkg.Pkg.Path() {
				continue
			}
			for ci, c := range cf.GlobalInv {
				genv := &Env{x: x, st: st, old: st, vars: map[string]Value{}, cf: cf}
				lab := c.Label
				if lab == "" {
					lab = fmt.Sprintf("%d", ci)
				}
				x.emit(st, "global-invariant", lab, x.evalBool(genv, c.E, c), c.Src)
			}
		}
	}
	// every other function re-establishes the global invariants whose footprint it has written
	if x.Fn.Name() != "init" {
		x.checkGlobalInvs(st, "preserved")
	}
	if x.FC == nil {
		return
	}
	var res Value
	if len(results) == 1 {
		res = results[0]
	} else if len(results) > 1 {
		res = Value{Tup: results}
	}
	env := &Env{x: x, st: st, old: x.init, vars: map[string]Value{}, cf: x.CF}
	for n, v := range x.params {
		env.vars[n] = v
	}
	for i, p := range x.Fn.Params {
		env.vars[fmt.Sprintf("arg%d", i)] = x.params[p.Name()]
	}
	bindResults(env, x.Fn.Signature, res)
	x.anchors(st, "at return#"+x.retLabel(ins), env)
	for ci, c := range x.FC.Ensures {
		g := x.evalBool(env, c.E, c)
		lab := c.Label
		if lab == "" {
			lab = fmt.Sprintf("%d", ci)
		}
		x.emit(st, "post", lab, g, c.Src)
	}
	// refinement: the implementation meets the contract callers of the interface method rely on
	for _, rf := range x.FC.Refines {
		name, except := rf, ""
		if i := strings.Index(rf, " except "); i >= 0 {
			name, except = strings.TrimSpace(rf[:i]), rf[i+8:]
		}
		skip := map[string]bool{}
		for _, l := range strings.Fields(strings.ReplaceAll(except, ",", " ")) {
			skip[l] = true
		}
		full := x.P.fullFuncName(name, x.CF)
		ifc := x.P.Externs[full]
		if ifc == nil || !ifc.Iface {
			x.unsupported("refines %s: no interface contract %s", name, full)
			continue
		}
		rp := strings.Index(name, ")")
		it, err := x.P.ResolveType(strings.TrimPrefix(name[:rp], "("), x.CF)
		if err != nil || len(x.Fn.Params) == 0 {
			x.unsupported("refines %s: %v", name, err)
			continue
		}
		renv := &Env{x: x, st: st, old: x.init, vars: map[string]Value{}, cf: x.P.FileOf[ifc]}
		for i, pn := range ifc.Params {
			if i >= len(x.Fn.Params) {
				break
			}
			v := x.params[x.Fn.Params[i].Name()]
			if i == 0 {
				v = x.makeIface(v, x.Fn.Params[0].Type(), it)
			}
			renv.vars[pn] = v
			renv.vars[fmt.Sprintf("arg%d", i)] = v
		}
		bindResults(renv, x.Fn.Signature, res)
		for ci, c := range ifc.Ensures {
			lab := c.Label
			if lab == "" {
				lab = fmt.Sprintf("%d", ci)
			}
			if c.UsesLog || skip[lab] {
				continue
			}
			x.emit(st, "refines", lastName(full)+":"+lab, x.evalBool(renv, c.E, c), c.Src)
		}
	}
	// call frame: logged callees not declared in `calls` must not have been called
	for _, k := range sortedKeys(st.Calls) {
		declared := false
		for _, cn := range x.FC.CallsDecl {
			if cn == k || strings.HasSuffix(k, "."+cn) {
				declared = true
			}
		}
		if !declared && st.Calls[k] != "0" {
			x.emit(st, "calls", k, Eq(st.Calls[k], "0"), "logged callee "+k+" is not declared in the contract's calls clause")
		}
	}
	// join-before-return: nothing lent
	if l := x.lentAny(st); l != "false" {
		x.emit(st, "go", "join-before-return", Not(l), "all goroutines joined before return")
	}
}

func (x *Exec) doPanic(st *State, pv Value, label string) {
	fr := st.top()
	fr.Panicking = true
	fr.PanicVal = pv
	x.runDefers(st, func(st *State) {
		fr := st.top()
		if fr.Recovered {
			// resume at the recover block
			fr.Panicking = false
			if fr.Fn.Recover != nil {
				x.runBlock(st, fr.Fn.Recover, nil)
				return
			}
			// no named results: return zero values
			var rs []Value
			res := fr.Fn.Signature.Results()
			for i := 0; i < res.Len(); i++ {
				rs = append(rs, x.mk(x.TM.Zero(res.At(i).Type()), res.At(i).Type()))
			}
			x.doReturn(st, nil, rs)
			return
		}
		if fr.GoRoot {
			x.emit(st, "go", fr.OnPanicGo+":unrecovered-panic", "false", "a panic that escapes a goroutine aborts the process instead of resurfacing on the caller")
			return
		}
		if fr.OnPanic != nil {
			fr.OnPanic(st, fr.PanicVal)
			return
		}
		// outermost frame: panic escapes the function under verification
		goal := "false"
		clause := "function must not panic"
		if x.FC != nil && x.FC.MayPanic {
			goal = x.panicked(st)
			clause = "may panic only when a caller-supplied component panicked"
		}
		if x.FC != nil && len(x.FC.Panics) > 0 {
			env := x.entryEnv(st)
			env.vars["panicvalue"] = fr.PanicVal
			var gs []string
			for _, c := range x.FC.Panics {
				gs = append(gs, x.evalBool(env, c.E, c))
				clause = c.Src
			}
			goal = Or(gs...)
		}
		x.emit(st, "panic", label, goal, clause)
		if l := x.lentAny(st); l != "false" {
			x.emit(st, "go", "join-before-panic", Not(l), "all goroutines joined before the panic leaves the function")
		}
	})
}

func (x *Exec) runDefers(st *State, cont func(*State)) {
	fr := st.top()
	if len(fr.Defers) == 0 {
		cont(st)
		return
	}
	d := fr.Defers[len(fr.Defers)-1]
	fr.Defers = fr.Defers[:len(fr.Defers)-1]
	next := func(st *State, _ Value) { x.runDefers(st, cont) }
	call := &d.call.Call
	if call.IsInvoke() {
		args := append([]Value{d.fn}, d.args...)
		x.invoke(st, d.call, call, d.fn, args, next)
		return
	}
	switch f := call.Value.(type) {
	case *ssa.Builtin:
		x.builtin(st, d.call, f, call, d.args, next)
		return
	case *ssa.Function:
		x.callDeferred(st, d.call, f, nil, d.args, next)
		return
	}
	if d.fn.Clo != nil {
		x.callDeferred(st, d.call, d.fn.Clo.Fn, d.fn.Clo.Bindings, d.args, next)
		return
	}
	x.DefaultExterns["deferred dynamic call"] = true
	next(st, Value{})
}

func (x *Exec) callDeferred(st *State, ins ssa.Instruction, fn *ssa.Function, bindings, args []Value, cont func(*State, Value)) {
	parent := st.top()
	if fn.Parent() != nil || len(bindings) > 0 {
		// inline closure; mark as deferred-of parent for recover()
		pid := parent.ID
		x.inlineWith(st, ins, fn, bindings, args, cont, func(fr *Frame) { fr.CallSite = fmt.Sprintf("deferof:%d", pid) })
		return
	}
	x.callFunction(st, ins, fn, bindings, args, cont)
}

func (x *Exec) inlineWith(st *State, ins ssa.Instruction, fn *ssa.Function, bindings, args []Value, cont func(*State, Value), setup func(*Frame)) {
	// same as inline, with a frame customisation hook
	if len(fn.Blocks) == 0 {
		x.fail("cannot inline %s: no body", fn.Name())
	}
	parent := st.top()
	fr := x.newFrame(st, fn)
	fr.GoMode = parent.GoMode
	setup(fr)
	for i, p := range fn.Params {
		if i < len(args) {
			fr.Regs[p] = args[i]
		}
	}
	for i, fv := range fn.FreeVars {
		if i < len(bindings) {
			fr.Regs[fv] = bindings[i]
		}
	}
	fr.OnReturn = func(st *State, results []Value) {
		st.Frames = st.Frames[:len(st.Frames)-1]
		var res Value
		if len(results) == 1 {
			res = results[0]
		} else if len(results) > 1 {
			res = Value{Tup: results}
		}
		cont(st, res)
	}
	fr.OnPanic = func(st *State, pv Value) {
		st.Frames = st.Frames[:len(st.Frames)-1]
		x.doPanic(st, pv, "propagated")
	}
	x.runBlock(st, fn.Blocks[0], nil)
}

// ---------- builtins

func (x *Exec) builtin(st *State, ins ssa.Instruction, b *ssa.Builtin, call *ssa.CallCommon, args []Value, cont func(*State, Value)) {
	if b.Name() == "append" {
		x.anchors(st, "before call "+x.callLabel(ins, "append"), nil)
	}
	switch b.Name() {
	case "len":
		cont(st, intV(x.lenOf(st, args[0], false, nil)))
	case "cap":
		cont(st, intV(x.lenOf(st, args[0], true, nil)))
	case "append":
		cont(st, x.appendOp(st, ins, args[0], args[1], call))
	case "delete":
		m, k := args[0], args[1]
		hn, _, has, _ := x.mapArrays(st, m.Typ)
		x.checkMapWrite(st, m.Term, ins)
		// delete on nil map is a no-op
		st.Heap[hn] = Ite(Eq(m.Term, "0"), has, Store(has, m.Term, Store(Select(has, m.Term), x.asTerm(k), "false")))
		cont(st, Value{})
	case "panic":
		x.doPanic(st, args[0], x.labelFor(ins, "panic", "explicit"))
	case "recover":
		cont(st, x.doRecover(st))
	case "close":
		ch := args[0].Term
		closed, ok := st.Ghost["chanclosed:"+ch]
		if !ok {
			x.unsupported("close of unknown channel")
			closed = "false"
		}
		x.emit(st, "close", x.labelFor(ins, "close", describe(call.Args[0])), And(Not(Eq(ch, "0")), Not(closed)), "close of nil or closed channel")
		st.Ghost["chanclosed:"+ch] = "true"
		cont(st, Value{})
	case "copy":
		// havoc destination elements
		dst := args[0]
		if sl, ok := types.Unalias(dst.Typ).Underlying().(*types.Slice); ok {
			es := x.TM.Key(sl.Elem())
			name := x.TM.ElemArray(es)
			arr := x.elemArr(st, es)
			st.Heap[name] = Store(arr, app("sbase", dst.Term), x.D.Fresh("copy", fmt.Sprintf("(Array Int %s)", ksort(es))))
		}
		cont(st, x.mk(x.D.Fresh("copyn", SInt), types.Typ[types.Int]))
	case "ssa:wrapnilchk":
		x.emit(st, "nil", x.labelFor(ins, "nil", "wrapnilchk"), Not(Eq(x.asTerm(args[0]), "0")), "")
		cont(st, args[0])
	case "ssa:deferstack":
		cont(st, Value{Term: "0", Sort: SInt, Typ: types.Typ[types.Int]})
	case "min", "max":
		a, bb := args[0].Term, args[1].Term
		c := app("<", a, bb)
		if b.Name() == "max" {
			c = app(">", a, bb)
		}
		cont(st, x.mk(Ite(c, a, bb), args[0].Typ))
	case "print", "println":
		cont(st, Value{})
	default:
		x.fail("unsupported builtin %s", b.Name())
	}
}

func (x *Exec) doRecover(st *State) Value {
	fr := st.top()
	anyT := types.NewInterfaceType(nil, nil)
	if strings.HasPrefix(fr.CallSite, "deferof:") {
		var pid int
		fmt.Sscanf(fr.CallSite, "deferof:%d", &pid)
		if p := st.frameByID(pid); p != nil && p.Panicking && !p.Recovered {
			p.Recovered = true
			v := p.PanicVal
			v.Typ = anyT
			return v
		}
	}
	return x.mk(x.TM.Zero(anyT), anyT)
}

func (x *Exec) appendOp(st *State, ins ssa.Instruction, s, e Value, call *ssa.CallCommon) Value {
	slT := types.Unalias(s.Typ).Underlying().(*types.Slice)
	et := slT.Elem()
	es := x.TM.Key(et)
	if e.Sort == SStr {
		// append([]byte, string...)
		r := x.alloc(st)
		name := x.TM.ElemArray(es)
		st.Heap[name] = Store(x.elemArr(st, es), r, x.D.Fresh("app", fmt.Sprintf("(Array Int %s)", ksort(es))))
		n := app("+", app("slen", s.Term), app("strlen", e.Term))
		return x.mk(fmt.Sprintf("(mk_slice %s %s %s)", r, n, n), s.Typ)
	}
	if x.exploded(et) {
		return x.appendStructs(st, s, e, et)
	}
	arr := x.elemArr(st, es)
	name := x.TM.ElemArray(es)
	r := x.alloc(st)
	oldInner := Select(arr, app("sbase", s.Term))
	newInner := x.D.Fresh("app", fmt.Sprintf("(Array Int %s)", ksort(es)))
	ls := x.lenOf(st, s, false, nil)
	le := x.lenOf(st, e, false, nil)
	// prefix copy
	if isNilSlice(s.Term) {
		// nothing to copy
	} else {
		st.Assume(fmt.Sprintf("(forall ((i!q Int)) (! (=> (and (<= 0 i!q) (< i!q %s)) (= (select %s i!q) (select %s i!q))) :pattern ((select %s i!q)) :pattern ((select %s i!q))))", ls, newInner, oldInner, newInner, oldInner))
	}
	// appended elements: concrete count if known
	var k int
	if _, err := fmt.Sscanf(le, "%d", &k); err == nil && fmt.Sprintf("%d", k) == le && k <= 16 {
		eInner := Select(arr, app("sbase", e.Term))
		for j := 0; j < k; j++ {
			src := Select(eInner, fmt.Sprintf("%d", j))
			dst := app("+", ls, fmt.Sprintf("%d", j))
			if ls == "0" {
				dst = fmt.Sprintf("%d", j)
			}
			st.Assume(Eq(Select(newInner, dst), src))
		}
	} else {
		eInner := Select(arr, app("sbase", e.Term))
		st.Assume(fmt.Sprintf("(forall ((j!q Int)) (! (=> (and (<= 0 j!q) (< j!q %s)) (= (select %s (+ %s j!q)) (select %s j!q))) :pattern ((select %s j!q))))", le, newInner, ls, eInner, eInner))
	}
	st.Heap[name] = Store(arr, r, newInner)
	n := app("+", ls, le)
	if ls == "0" {
		n = le
	}
	nc := x.D.Fresh("appcap", SInt)
	st.Assume(fmt.Sprintf("(>= %s %s)", nc, n))
	return x.mk(fmt.Sprintf("(mk_slice %s %s %s)", r, n, nc), s.Typ)
}

// ---------- frame conditions

type modTarget struct {
	kind  string // field, elems, cell, map, all
	ref   string
	arr   string // heap array name
	desc  string
	vsort string // value sort of the heap array
}

// parseModTarget evaluates a modifies item in env.
func (x *Exec) modTargets(env *Env, ms string) []modTarget {
	ms = strings.TrimSpace(ms)
	c := Clause{Src: "modifies " + ms, File: "", Line: 0}
	if env.cf != nil {
		c.File = env.cf.Path
	}
	env.clause = c
	switch {
	case strings.HasPrefix(ms, "global "):
		// a package-level variable of the contract's package: its cell
		name := strings.TrimSpace(strings.TrimPrefix(ms, "global "))
		path := ""
		if env.cf != nil {
			path = env.cf.PkgPath
		}
		sp := x.P.SPkgs[path]
		if sp == nil {
			env.errf("modifies global: unknown package %q", path)
		}
		g, ok := sp.Members[name].(*ssa.Global)
		if !ok {
			env.errf("modifies global: no package-level variable %s", name)
		}
		el := g.Type().(*types.Pointer).Elem()
		return []modTarget{{kind: "cell", ref: x.asTerm(x.globalPtr(g)), arr: x.TM.CellArray(x.TM.Key(el)), desc: ms, vsort: x.TM.Sort(el)}}
	case strings.HasSuffix(ms, "[*]"):
		e, err := ParseExpr(strings.TrimSuffix(ms, "[*]"))
		if err != nil {
			env.errf("%v", err)
		}
		v := env.eval(e)
		sl, ok := types.Unalias(v.Typ).Underlying().(*types.Slice)
		if !ok {
			env.errf("modifies x[*] needs a slice")
		}
		es := x.TM.Key(sl.Elem())
		return []modTarget{{kind: "elems", ref: app("sbase", v.Term), arr: x.TM.ElemArray(es), desc: ms, vsort: fmt.Sprintf("(Array Int %s)", ksort(es))}}
	case strings.HasSuffix(ms, "{}"):
		e, err := ParseExpr(strings.TrimSuffix(ms, "{}"))
		if err != nil {
			env.errf("%v", err)
		}
		v := env.eval(e)
		ks, vs, _ := x.mapSorts(v.Typ)
		return []modTarget{{kind: "map", ref: v.Term, arr: x.TM.MapHas(ks, vs), desc: ms, vsort: fmt.Sprintf("(Array %s Bool)", ks)}, {kind: "map", ref: v.Term, arr: x.TM.MapVal(ks, vs), desc: ms, vsort: fmt.Sprintf("(Array %s %s)", ks, vs)}}
	case strings.HasPrefix(ms, "*"):
		e, err := ParseExpr(ms[1:])
		if err != nil {
			env.errf("%v", err)
		}
		v := x.decodePtr(env.eval(e))
		pt, ok := types.Unalias(v.Typ).Underlying().(*types.Pointer)
		if !ok {
			env.errf("modifies *x needs a pointer")
		}
		if v.Ptr != nil && len(v.Ptr.Steps) == 1 && !v.Ptr.Steps[0].IsIndex && v.Ptr.Cell == nil {
			// pointer to a field of an object: the field's heap array at the object's reference
			s0 := v.Ptr.Steps[0]
			name, vs := x.TM.FieldArray(s0.Struct, s0.St, s0.Field)
			return []modTarget{{kind: "field", ref: v.Ptr.Base, arr: name, desc: ms, vsort: vs}}
		}
		ref := x.asTerm(v)
		if stt, ok := types.Unalias(pt.Elem()).Underlying().(*types.Struct); ok && !isTime(pt.Elem()) && !x.TM.IsOpaqueStruct(pt.Elem()) {
			var ts []modTarget
			for i := 0; i < stt.NumFields(); i++ {
				name, vs := x.TM.FieldArray(pt.Elem(), stt, i)
				ts = append(ts, modTarget{kind: "field", ref: ref, arr: name, desc: ms, vsort: vs})
			}
			return ts
		}
		return []modTarget{{kind: "cell", ref: ref, arr: x.TM.CellArray(x.TM.Key(pt.Elem())), desc: ms, vsort: x.TM.Sort(pt.Elem())}}
	default:
		e, err := ParseExpr(ms)
		if err != nil {
			env.errf("%v", err)
		}
		sel, ok := e.(*ESel)
		if !ok {
			env.errf("modifies item must be x.f, x[*], m{} or *x")
		}
		v := env.eval(sel.X)
		pt, ok := types.Unalias(v.Typ).Underlying().(*types.Pointer)
		if !ok {
			env.errf("modifies x.f needs pointer x")
		}
		stt := types.Unalias(pt.Elem()).Underlying().(*types.Struct)
		idx, path := findField(stt, sel.Name)
		if idx < 0 || len(path) != 1 {
			env.errf("modifies: no direct field %s", sel.Name)
		}
		name, vs := x.TM.FieldArray(pt.Elem(), stt, idx)
		return []modTarget{{kind: "field", ref: x.asTerm(v), arr: name, desc: ms, vsort: vs}}
	}
}

// ownModifies returns the targets the function under verification may modify (evaluated at entry).
func (x *Exec) ownModifies() []modTarget {
	if x.FC == nil {
		return nil
	}
	env := &Env{x: x, st: x.init, old: x.init, vars: map[string]Value{}, cf: x.CF}
	for n, v := range x.params {
		env.vars[n] = v
	}
	var ts []modTarget
	for _, ms := range x.FC.ModSrc {
		ts = append(ts, x.modTargets(env, ms)...)
	}
	return ts
}

// writeAllowed builds the condition under which a write to (arr, ref) is permitted.
func (x *Exec) writeAllowed(st *State, arr, ref string) string {
	conds := []string{app(">=", ref, "A0")}
	if strings.HasPrefix(ref, "(elemref ") {
		parts := splitSexp(ref[1 : len(ref)-1])
		if len(parts) == 3 {
			conds = append(conds, app(">=", parts[1], "A0"))
			for _, t := range x.ownModifies() {
				if t.kind == "elems" {
					conds = append(conds, Eq(parts[1], t.ref))
				}
			}
		}
	}
	for _, t := range x.ownModifies() {
		if t.arr == arr {
			conds = append(conds, Eq(ref, t.ref))
		}
	}
	// goroutine ownership
	return Or(conds...)
}

func (x *Exec) checkWrite(st *State, p *Pointer, ins ssa.Instruction) {
	if x.FC == nil {
		return
	}
	var arrs []string
	if len(p.Steps) == 0 {
		if stt, ok := types.Unalias(p.Elem).Underlying().(*types.Struct); ok && !isTime(p.Elem) && !x.TM.IsOpaqueStruct(p.Elem) {
			for i := 0; i < stt.NumFields(); i++ {
				n, _ := x.TM.FieldArray(p.Elem, stt, i)
				arrs = append(arrs, n)
			}
		} else if a, ok := types.Unalias(p.Elem).Underlying().(*types.Array); ok {
			arrs = append(arrs, x.TM.ElemArray(x.TM.Key(a.Elem())))
		} else {
			arrs = append(arrs, x.TM.CellArray(x.TM.Key(p.Elem)))
		}
	} else if p.Steps[0].IsIndex {
		arrs = append(arrs, x.TM.ElemArray(p.ElemBaseSort))
	} else {
		n, _ := x.TM.FieldArray(p.Steps[0].Struct, p.Steps[0].St, p.Steps[0].Field)
		arrs = append(arrs, n)
	}
	if strings.HasPrefix(p.Base, "(elemref ") {
		parts := splitSexp(p.Base[1 : len(p.Base)-1])
		if len(parts) == 3 && x.freshSyntactic(st, parts[1]) {
			x.goWriteCheck(st, p, ins)
			return
		}
	}
	if strings.HasPrefix(p.Base, "(+ A") || strings.HasPrefix(p.Base, "A") && !strings.Contains(p.Base, " ") {
		// syntactically fresh (allocated in this activation)
		if x.freshSyntactic(st, p.Base) {
			x.goWriteCheck(st, p, ins)
			return
		}
	}
	var gs []string
	for _, a := range arrs {
		gs = append(gs, x.writeAllowed(st, a, p.Base))
	}
	desc := "?"
	if ins != nil {
		if s, ok := ins.(*ssa.Store); ok {
			desc = describe(s.Addr)
		}
	}
	lab := desc
	if ins != nil {
		lab = x.labelFor(ins, "modifies", desc)
	}
	x.emit(st, "modifies", lab, And(gs...), "write must hit fresh memory or the modifies clause")
	x.goWriteCheck(st, p, ins)
}

// freshSyntactic: base is A0+k or a later allocation base
func (x *Exec) freshSyntactic(st *State, base string) bool {
	return strings.HasPrefix(base, "A0") || strings.HasPrefix(base, "(+ A0 ") || strings.HasPrefix(base, "A!") || strings.HasPrefix(base, "(+ A!")
}

func (x *Exec) checkMapWrite(st *State, ref string, ins ssa.Instruction) {
	if x.FC == nil {
		return
	}
	if x.freshSyntactic(st, ref) {
		return
	}
	conds := []string{app(">=", ref, "A0"), Eq(ref, "0")}
	for _, t := range x.ownModifies() {
		if t.kind == "map" {
			conds = append(conds, Eq(ref, t.ref))
		}
	}
	lab := "map"
	if ins != nil {
		lab = x.labelFor(ins, "modifies", "map")
	}
	x.emit(st, "modifies", lab, Or(conds...), "map write must hit a fresh map or the modifies clause")
}

// havocTarget havocs a callee's modifies target in the caller state (with permission check).
func (x *Exec) havocTarget(st *State, env *Env, ms string, ins ssa.Instruction, label string, check bool) {
	for _, t := range x.modTargets(env, ms) {
		if check && x.FC != nil && !x.freshSyntactic(st, t.ref) {
			x.emit(st, "modifies", "call "+label+":"+t.desc, x.writeAllowedKind(st, t), "callee's write must be permitted to the caller")
		}
		cur := x.heapArr(st, t.arr, SInt, t.vsort)
		fresh := x.D.Fresh("hv", t.vsort)
		st.Heap[t.arr] = Store(cur, t.ref, fresh)
	}
}

func (x *Exec) writeAllowedKind(st *State, t modTarget) string {
	conds := []string{app(">=", t.ref, "A0")}
	for _, o := range x.ownModifies() {
		if o.arr == t.arr {
			conds = append(conds, Eq(t.ref, o.ref))
		}
	}
	return Or(conds...)
}

// arraySortOf recovers the value sort of a heap array from its declaration.
func (x *Exec) arraySortOf(arr string) string {
	key := "c:" + arr + "@0"
	if !x.D.Has(key) {
		return ""
	}
	for _, l := range x.D.order {
		pre := "(declare-const " + arr + "@0 (Array Int "
		if strings.HasPrefix(l, pre) {
			return strings.TrimSuffix(l[len(pre):], "))")
		}
	}
	return ""
}

// ---------- anchors

func (x *Exec) anchors(st *State, anchor string, env *Env) {
	if x.FC == nil || x.Unroll > 0 {
		return
	}
	for ai, a := range x.FC.Asserts {
		if a.Anchor != anchor {
			continue
		}
		x.anchorHit[ai] = true
		if env == nil {
			env = x.localEnv(st)
		}
		g := x.evalBool(env, a.C.E, a.C)
		if a.Assume {
			st.Assume(g)
			continue
		}
		lab := a.C.Label
		if lab == "" {
			lab = anchor
		}
		x.emit(st, "assert", lab, g, a.C.Src)
		st.Assume(g)
	}
}

// appendStructs: append for slices of struct elements (exploded representation). The fresh backing array's
// element objects are cells never read before, so their contents are fixed by assumption (allocation by choosing).
func (x *Exec) appendStructs(st *State, s, e Value, et types.Type) Value {
	stt := types.Unalias(et).Underlying().(*types.Struct)
	r := x.alloc(st)
	ls := x.lenOf(st, s, false, nil)
	le := x.lenOf(st, e, false, nil)
	x.elemRef(r, "0")
	var k int
	concrete := false
	if _, err := fmt.Sscanf(le, "%d", &k); err == nil && fmt.Sprintf("%d", k) == le && k <= 16 {
		concrete = true
	}
	for i := 0; i < stt.NumFields(); i++ {
		name, vs := x.TM.FieldArray(et, stt, i)
		arr := x.heapArr(st, name, SInt, vs)
		if !isNilSlice(s.Term) {
			st.Assume(fmt.Sprintf("(forall ((i!q Int)) (! (=> (and (<= 0 i!q) (< i!q %s)) (= (select %s (elemref %s i!q)) (select %s (elemref (sbase %s) i!q)))) :pattern ((elemref %s i!q))))", ls, arr, r, arr, s.Term, r))
		}
		if concrete {
			for j := 0; j < k; j++ {
				dst := app("+", ls, fmt.Sprintf("%d", j))
				if ls == "0" {
					dst = fmt.Sprintf("%d", j)
				}
				st.Assume(Eq(Select(arr, x.elemRef(r, dst)), Select(arr, x.elemRef(app("sbase", e.Term), fmt.Sprintf("%d", j)))))
			}
		} else {
			st.Assume(fmt.Sprintf("(forall ((j!q Int)) (! (=> (and (<= 0 j!q) (< j!q %s)) (= (select %s (elemref %s (+ %s j!q))) (select %s (elemref (sbase %s) j!q)))) :pattern ((elemref (sbase %s) j!q))))", le, arr, r, ls, arr, e.Term, e.Term))
		}
	}
	n := app("+", ls, le)
	if ls == "0" {
		n = le
	}
	nc := x.D.Fresh("appcap", SInt)
	st.Assume(fmt.Sprintf("(>= %s %s)", nc, n))
	return x.mk(fmt.Sprintf("(mk_slice %s %s %s)", r, n, nc), s.Typ)
}

func (x *Exec) anchorName(ins ssa.Instruction, full string) string {
	short := strings.ReplaceAll(full, x.P.ModPath+"/", "")
	return x.callLabel(ins, short)
}

// genericCall interprets a few generic standard-library functions whose function-valued argument is a closure
// visible at the call site: slices.IndexFunc, slices.ContainsFunc.
func (x *Exec) genericCall(st *State, ins ssa.Instruction, full string, fn *ssa.Function, args []Value, cont func(*State, Value)) bool {
	switch full {
	case "slices.IndexFunc", "slices.ContainsFunc":
	case "slices.Clone":
		// a fresh slice with the same elements: append(S(nil), s...) (nil stays nil in Go; the model's nil has length 0
		// and the fresh copy of an empty slice is indistinguishable by length and contents)
		s := args[0]
		if _, ok := types.Unalias(s.Typ).Underlying().(*types.Slice); !ok {
			return false
		}
		cont(st, x.appendOp(st, ins, x.mk(x.TM.Zero(s.Typ), s.Typ), s, nil))
		return true
	case "slices.Equal":
		a, b := args[0], args[1]
		sl, ok := types.Unalias(a.Typ).Underlying().(*types.Slice)
		if !ok || x.exploded(sl.Elem()) {
			return false
		}
		es := x.TM.Key(sl.Elem())
		at := func(s Value, idx string) Value {
			return x.mk(Select(Select(x.elemArr(st, es), app("sbase", s.Term)), idx), sl.Elem())
		}
		r := x.D.Fresh("sliceseq", SBool)
		all := fmt.Sprintf("(forall ((k!q Int)) (! (=> (and (<= 0 k!q) (< k!q (slen %s))) %s) :pattern (%s)))", a.Term, x.equal(st, at(a, "k!q"), at(b, "k!q"), nil), at(a, "k!q").Term)
		st.Assume(Eq(r, And(Eq(app("slen", a.Term), app("slen", b.Term)), all)))
		cont(st, boolV(r))
		return true
	case "slices.Contains", "slices.Index":
		// first index holding a value equal to the argument (Go's == on the element type), or -1
		s, e := args[0], args[1]
		sl, ok := types.Unalias(s.Typ).Underlying().(*types.Slice)
		if !ok || x.exploded(sl.Elem()) {
			return false
		}
		es := x.TM.Key(sl.Elem())
		at := func(idx string) Value {
			return x.mk(Select(Select(x.elemArr(st, es), app("sbase", s.Term)), idx), sl.Elem())
		}
		n := app("slen", s.Term)
		ne := func(bound string) string {
			return fmt.Sprintf("(forall ((k!q Int)) (! (=> (and (<= 0 k!q) (< k!q %s)) (not %s)) :pattern (%s)))", bound, x.equal(st, at("k!q"), e, nil), at("k!q").Term)
		}
		idx := x.D.Fresh("idx", SInt)
		st.Assume(Or(And(Eq(idx, "(- 1)"), ne(n)), And(fmt.Sprintf("(and (<= 0 %s) (< %s %s))", idx, idx, n), x.equal(st, at(idx), e, nil), ne(idx))))
		if full == "slices.Contains" {
			cont(st, boolV(app(">=", idx, "0")))
		} else {
			cont(st, intV(idx))
		}
		return true
	default:
		return false
	}
	s, f := args[0], args[1]
	if f.Clo == nil {
		return false
	}
	sl, ok := types.Unalias(s.Typ).Underlying().(*types.Slice)
	if !ok {
		return false
	}
	c := x.D.Fresh("qv", SInt)
	elemAt := func(idx string) Value {
		if x.exploded(sl.Elem()) {
			return x.loadObject(st, x.elemRef(app("sbase", s.Term), idx), sl.Elem())
		}
		es := x.TM.Key(sl.Elem())
		return x.mk(Select(Select(x.elemArr(st, es), app("sbase", s.Term)), idx), sl.Elem())
	}
	// evaluate the predicate closure once on the element at a fresh constant index
	probe := st.clone()
	probe.Assume(fmt.Sprintf("(and (<= 0 %s) (< %s (slen %s)))", c, c, s.Term))
	var results []Value
	nObl := len(x.Obls)
	x.inline(probe, ins, f.Clo.Fn, f.Clo.Bindings, []Value{elemAt(c)}, func(_ *State, r Value) { results = append(results, r) })
	if len(results) != 1 || results[0].Sort != SBool {
		x.Obls = x.Obls[:nObl]
		x.unsupported("predicate closure of %s is not a single-path boolean function", full)
		return false
	}
	R := func(idx string) string { return strings.ReplaceAll(results[0].Term, c, idx) }
	n := app("slen", s.Term)
	all := func(bound string) string {
		return fmt.Sprintf("(forall ((k!q Int)) (! (=> (and (<= 0 k!q) (< k!q %s)) (not %s)) :pattern (%s)))", bound, R("k!q"), x.elemRefOrSelect(s, sl, "k!q", st))
	}
	idx := x.D.Fresh("idx", SInt)
	st.Assume(Or(And(Eq(idx, "(- 1)"), all(n)), And(fmt.Sprintf("(and (<= 0 %s) (< %s %s))", idx, idx, n), R(idx), all(idx))))
	if full == "slices.ContainsFunc" {
		cont(st, boolV(app(">=", idx, "0")))
	} else {
		cont(st, intV(idx))
	}
	return true
}

func (x *Exec) elemRefOrSelect(s Value, sl *types.Slice, idx string, st *State) string {
	if x.exploded(sl.Elem()) {
		return x.elemRef(app("sbase", s.Term), idx)
	}
	es := x.TM.Key(sl.Elem())
	return Select(Select(x.elemArr(st, es), app("sbase", s.Term)), idx)
}

// lastCall returns the latest call-log record for a logged callee (by last name).
func (st *State) lastCall(name string) *CallRec {
	for i := len(st.CallLog) - 1; i >= 0; i-- {
		if st.CallLog[i].Name == name || strings.HasSuffix(st.CallLog[i].Name, "."+name) {
			return &st.CallLog[i]
		}
	}
	return nil
}

// callKey canonicalises a logged-callee name used in contracts to the key used in State.Calls.
func (x *Exec) callKey(st *State, name string) string {
	if _, ok := st.Calls[name]; ok {
		return name
	}
	for k := range st.Calls {
		if strings.HasSuffix(k, "."+name) {
			return k
		}
	}
	// find a logged contract whose last name matches
	for full, fc := range x.P.Externs {
		if fc.Logged {
			ln := lastName(full)
			if ln == name || strings.HasSuffix(ln, "."+name) {
				return ln
			}
		}
	}
	for full, fc := range x.P.Contracts {
		if fc.Logged {
			ln := lastName(strings.ReplaceAll(full, x.P.ModPath+"/", ""))
			if ln == name || strings.HasSuffix(ln, "."+name) {
				return ln
			}
		}
	}
	return name
}
