package main

// Replay of a recorded violation (`./check <id> --replay <file>`).
//
// A replay file names the failed obligation and carries the clause, the path, the solvers' output and the path of the
// complete SMT-LIB query. Replaying re-runs that query on all three solvers with the thorough budget and, when the
// file carries a concrete failing input (`go_test`: an in-package test generated from a solver model), runs that
// test against the real code in /repo through `go test -overlay` (nothing is written to /repo).
//
// Counterexample construction from models exists only for functions whose inputs are scalars, strings and flat
// structs (see tryReplay); everything else is reported with no-failing-input-found.

import (
	"regexp"
	"strconv"
	"context"
	"encoding/json"
	"fmt"
	"os"
	"os/exec"
	"path/filepath"
	"strings"
	"time"
)

func runReplay(repo, file string) int {
	data, err := os.ReadFile(file)
	if err != nil {
		fmt.Println("replay:", err)
		return 2
	}
	var r map[string]any
	if err := json.Unmarshal(data, &r); err != nil {
		fmt.Println("replay:", err)
		return 2
	}
	fmt.Printf("property   %v\nobligation %v\nposition   %v\nclause     %v\nstatus     %v (%v)\npath       %v\n",
		r["property"], r["obligation"], r["pos"], r["clause"], r["status"], r["solver"], r["trace"])
	if gt, ok := r["go_test"].(map[string]any); ok {
		src, _ := gt["source"].(string)
		pkg, _ := gt["package_dir"].(string)
		name, _ := gt["test"].(string)
		out, failed := runOverlayTest(repo, pkg, src, name)
		fmt.Printf("real code  go test -run %s in %s: failed=%v\n%s\n", name, pkg, failed, out)
		if failed {
			return 1
		}
	}
	still := true
	if q, _ := r["query"].(string); q != "" {
		if _, err := os.Stat(q); err != nil {
			// the query is stored next to the replay file
			q = filepath.Join(filepath.Dir(file), filepath.Base(q))
		}
		if _, err := os.Stat(q); err == nil {
			for _, c := range solverCfgs {
				res := runSolver(context.Background(), c, q, 60*time.Second)
				fmt.Printf("re-run     %-7s %s (%.1fs)\n", c.Name, res.status, res.secs)
				if res.status == "unsat" {
					still = false
				}
			}
		} else {
			fmt.Println("re-run     query file missing:", q)
		}
	}
	if still {
		fmt.Println("result     obligation still undischarged")
		return 1
	}
	fmt.Println("result     obligation discharges on re-run (the earlier failure was a resource limit)")
	return 0
}

// runOverlayTest injects src as <repo>/<pkg>/zz_govc_replay_test.go through an overlay and runs the named test.
func runOverlayTest(repo, pkg, src, name string) (string, bool) {
	dir, err := os.MkdirTemp("", "govc-replay")
	if err != nil {
		return err.Error(), false
	}
	defer os.RemoveAll(dir)
	tf := filepath.Join(dir, "replay_test.go")
	os.WriteFile(tf, []byte(src), 0o644)
	ov := map[string]any{"Replace": map[string]string{filepath.Join(repo, pkg, "zz_govc_replay_test.go"): tf}}
	ob, _ := json.Marshal(ov)
	of := filepath.Join(dir, "overlay.json")
	os.WriteFile(of, ob, 0o644)
	ctx, cancel := context.WithTimeout(context.Background(), 180*time.Second)
	defer cancel()
	cmd := exec.CommandContext(ctx, "go", "test", "-overlay", of, "-vet=off", "-count=1", "-timeout", "60s", "-run", "^"+name+"$", "./"+pkg+"/")
	cmd.Dir = repo
	cmd.Env = append(os.Environ(), "GOFLAGS=-mod=mod", "GOPROXY=off", "GOSUMDB=off", "GOTOOLCHAIN=local")
	out, err := cmd.CombinedOutput()
	s := string(out)
	if len(s) > 3000 {
		s = s[len(s)-3000:]
	}
	failed := err != nil && (strings.Contains(s, "--- FAIL") || strings.Contains(s, "panic:"))
	return s, failed
}

// tryReplay builds a concrete input from a solver model of the failed obligation and runs the real function on it.
// replayDeadline bounds the whole search for failing inputs of one run (set by runProperty).
var replayDeadline time.Time

func tryReplay(p *Prog, o *Obligation, replayFile, repo string) (bool, any) {
	ok, info := tryReplayOne(p, o, replayFile, repo)
	if ok {
		return ok, info
	}
	// bounded counterexample search: unroll the loops and ask for models of the unrolled paths' obligations
	deadline := time.Now().Add(60 * time.Second)
	if !replayDeadline.IsZero() && replayDeadline.Before(deadline) {
		deadline = replayDeadline
	}
	tried := 0
	for _, k := range []int{1, 2, 3} {
		for _, c := range unrolledCandidates(p, o, k) {
			if time.Now().After(deadline) || tried >= 12 {
				break
			}
			ok2, info2 := tryReplayOne(p, c, replayFile, repo)
			if m, isMap := info2.(map[string]any); isMap {
				if att, _ := m["attempted"].(bool); att {
					tried++
				}
				m["search"] = fmt.Sprintf("loops unrolled %d times; model of %s", k, c.Name)
				if ok2 {
					return true, m
				}
			}
		}
	}
	if m, isMap := info.(map[string]any); isMap {
		m["unrolled_search"] = fmt.Sprintf("%d candidate models replayed, none failed on the real code", tried)
	}
	return false, info
}

func tryReplayOne(p *Prog, o *Obligation, replayFile, repo string) (bool, any) {
	src, pkg, how, reason := buildReplayTest(p, o, filepath.Dir(replayFile))
	if reason != "" {
		return false, map[string]any{"attempted": false, "reason": reason, "model_from": how}
	}
	plan := lastPlan
	skip := map[int]bool{}
	var out string
	var failed bool
	lineRe := regexp.MustCompile(`replay_test\.go:(\d+):`)
	for attempt := 0; attempt < 4; attempt++ {
		out, failed = runOverlayTest(repo, pkg, src, "TestGovcReplay")
		if failed || !strings.Contains(out, "[build failed]") {
			break
		}
		// drop the clauses whose (untyped) translation does not compile and try again
		dropped := false
		for _, m := range lineRe.FindAllStringSubmatch(out, -1) {
			n, _ := strconv.Atoi(m[1])
			if ci := plan.checkAtLine(n); ci >= 0 && !skip[ci] {
				skip[ci] = true
				dropped = true
			}
		}
		if !dropped {
			break
		}
		src = plan.render(skip)
	}
	reqAll := plan.reqUntranslated == 0
	for ci := range skip {
		if ci < plan.nPre {
			reqAll = false
		}
	}
	if failed && !reqAll {
		// a failure under an input that may violate a precondition the test could not check proves nothing
		failed = false
		out = "(the real code failed on the constructed input, but a precondition of the function could not be checked at run time, so the input is not reported)\n" + out
	}
	info := map[string]any{"attempted": true, "model_from": how, "reproduced_on_real_code": failed, "output": out, "clauses_checked": len(plan.checks) - len(skip),
		"all_preconditions_checked_at_run_time": reqAll}
	if !failed && strings.Contains(out, "[build failed]") {
		info["note"] = "generated test did not compile"
	}
	if !failed {
		info["source"] = src
	}
	if failed {
		info["go_test"] = map[string]any{"source": src, "package_dir": pkg, "test": "TestGovcReplay"}
	}
	return failed, info
}
