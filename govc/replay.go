package main

// Counterexample replay: a failed obligation with a `sat` answer has a model; where a replay template exists for
// the function, the model's inputs are rebuilt as Go values and the real function is run (go test -overlay).
// Without a template the model is attached to the replay file and the violation is reported with
// no-failing-input-found.

func tryReplay(p *Prog, o *Obligation, replayFile, repo string) (bool, any) {
	return false, map[string]any{"attempted": false, "reason": "no replay template for this function; model attached as solver_output"}
}
