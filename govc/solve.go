package main

import (
	"regexp"
	"bytes"
	"context"
	"crypto/sha256"
	"fmt"
	"os"
	"os/exec"
	"path/filepath"
	"strings"
	"sync"
	"time"
)

type SolverCfg struct {
	Name string
	Cmd  []string // file name appended
}

var solverCfgs = []SolverCfg{
	{"z3-new", []string{"z3-new", "-smt2"}},
	{"cvc5", []string{"cvc5", "--lang=smt2", "--produce-models"}},
	{"z3", []string{"z3", "-smt2"}},
}

// Query renders an obligation as an SMT-LIB script.
func (o *Obligation) Query(withModel bool) string {
	var b strings.Builder
	b.WriteString("; obligation " + o.Name + "\n")
	if withModel {
		b.WriteString("(set-option :produce-models true)\n")
	}
	b.WriteString("(set-logic ALL)\n")
	for _, l := range o.Decls.order {
		b.WriteString(l)
		b.WriteByte('\n')
	}
	for _, a := range o.Decls.axiom {
		b.WriteString("(assert " + a + ")\n")
	}
	// file-level axioms: relevance closure over the abstract symbols they mention
	if len(o.Decls.optAxioms) > 0 {
		var ctx strings.Builder
		for _, a := range o.Decls.axiom {
			ctx.WriteString(a)
		}
		for _, a := range o.Assume {
			ctx.WriteString(a)
		}
		ctx.WriteString(o.Goal)
		text := ctx.String()
		included := make([]bool, len(o.Decls.optAxioms))
		for changed := true; changed; {
			changed = false
			for i, oa := range o.Decls.optAxioms {
				if included[i] {
					continue
				}
				for _, sy := range oa.syms {
					if strings.Contains(text, sy+" ") || strings.Contains(text, sy+")") {
						included[i] = true
						changed = true
						text += oa.text
						b.WriteString("(assert " + oa.text + ")\n")
						break
					}
				}
			}
		}
	}
	// distinct string literals
	var lits []string
	for _, l := range o.Decls.order {
		if strings.HasPrefix(l, "(declare-const str.lit") {
			f := strings.Fields(l)
			lits = append(lits, f[1])
		}
	}
	if len(lits) > 0 {
		lits = append(lits, "str_empty")
		b.WriteString("(assert (distinct " + strings.Join(lits, " ") + "))\n")
	}
	var globs []string
	for _, l := range o.Decls.order {
		if strings.HasPrefix(l, "(declare-const g.") || strings.HasPrefix(l, "(declare-const fn.") {
			globs = append(globs, strings.Fields(l)[1])
		}
	}
	if len(globs) > 1 {
		b.WriteString("(assert (distinct " + strings.Join(globs, " ") + "))\n")
	}
	// global invariants are relevant only to queries that mention one of their package-level variables
	var giText strings.Builder
	nGI := 0
	for _, a := range o.Assume {
		if o.Decls.giSet[a] {
			nGI++
		} else {
			giText.WriteString(a)
			giText.WriteByte(' ')
		}
	}
	giText.WriteString(o.Goal)
	skipGI := map[string]bool{}
	if nGI > 0 {
		text := giText.String()
		pending := map[string][]string{}
		for _, a := range o.Assume {
			if o.Decls.giSet[a] {
				if syms := globSymRe.FindAllString(a, -1); len(syms) > 0 {
					pending[a] = syms // (an invariant re-assumed after a call may mention no variable any more: kept)
				}
			}
		}
		for changed := true; changed; {
			changed = false
			for _, a := range o.Assume {
				syms, ok := pending[a]
				if !ok {
					continue
				}
				for _, sy := range syms {
					if strings.Contains(text, sy+" ") || strings.Contains(text, sy+")") {
						delete(pending, a)
						text += a + " "
						changed = true
						break
					}
				}
			}
		}
		for a := range pending {
			skipGI[a] = true
		}
	}
	for _, a := range o.Assume {
		if skipGI[a] {
			continue
		}
		b.WriteString("(assert " + a + ")\n")
	}
	b.WriteString("(assert (not " + o.Goal + "))\n")
	b.WriteString("(check-sat)\n")
	if withModel {
		b.WriteString("(get-model)\n")
	}
	return b.String()
}

var globSymRe = regexp.MustCompile(`g\.[A-Za-z0-9_.$]+`)

type solveResult struct {
	status string
	solver string
	secs   float64
	out    string
}

func runSolver(ctx context.Context, cfg SolverCfg, file string, timeout time.Duration) solveResult {
	cctx, cancel := context.WithTimeout(ctx, timeout)
	defer cancel()
	args := append(append([]string(nil), cfg.Cmd[1:]...), file)
	if cfg.Name == "cvc5" {
		args = append([]string{fmt.Sprintf("--tlimit=%d", timeout.Milliseconds())}, args...)
	} else {
		args = append([]string{fmt.Sprintf("-T:%d", int(timeout.Seconds())+1)}, args...)
	}
	cmd := exec.CommandContext(cctx, cfg.Cmd[0], args...)
	var out bytes.Buffer
	cmd.Stdout = &out
	cmd.Stderr = &out
	t0 := time.Now()
	_ = cmd.Run()
	secs := time.Since(t0).Seconds()
	first := ""
	for _, l := range strings.Split(out.String(), "\n") {
		l = strings.TrimSpace(l)
		if l == "" || strings.HasPrefix(l, "WARNING") {
			continue // e.g. z3: 'if' cannot be used in patterns (the pattern is ignored)
		}
		first = l
		break
	}
	status := "unknown"
	switch first {
	case "unsat":
		status = "unsat"
	case "sat":
		status = "sat"
	case "unknown":
		status = "unknown"
	case "timeout":
		status = "timeout"
	default:
		if cctx.Err() != nil {
			status = "timeout"
		} else if strings.Contains(first, "error") || strings.Contains(out.String(), "(error") {
			status = "error"
		}
	}
	return solveResult{status: status, solver: cfg.Name, secs: secs, out: out.String()}
}

type Solver struct {
	Dir      string
	Timeout  time.Duration
	Consensus bool // thorough: run all solvers
	mu       sync.Mutex
	retryMu  sync.Mutex
	retries  int
	cache    map[string]solveResult
	inflight map[string]chan struct{}
	TotalSecs map[string]float64
	Counts   map[string]int
}

func NewSolver(dir string, timeout time.Duration, consensus bool) *Solver {
	os.MkdirAll(dir, 0o755)
	return &Solver{Dir: dir, Timeout: timeout, Consensus: consensus, cache: map[string]solveResult{}, inflight: map[string]chan struct{}{}, TotalSecs: map[string]float64{}, Counts: map[string]int{}}
}

// Solve discharges one obligation (race of the portfolio; first definitive answer wins).
func (s *Solver) Solve(o *Obligation) {
	if !o.Smoke && (o.Goal == "true") {
		o.Status, o.Solver = "unsat", "trivial"
		return
	}
	q := o.Query(false)
	sum := sha256.Sum256([]byte(q[strings.Index(q, "\n"):]))
	key := fmt.Sprintf("%x", sum[:12])
	for {
		s.mu.Lock()
		if r, ok := s.cache[key]; ok {
			s.mu.Unlock()
			o.Status, o.Solver, o.Secs = r.status, r.solver+"(cached)", 0
			if r.status != "unsat" {
				o.Model = r.out
			}
			return
		}
		if ch, busy := s.inflight[key]; busy {
			s.mu.Unlock()
			<-ch
			continue
		}
		done := make(chan struct{})
		s.inflight[key] = done
		s.mu.Unlock()
		defer func() {
			s.mu.Lock()
			delete(s.inflight, key)
			s.mu.Unlock()
			close(done)
		}()
		break
	}
	file := filepath.Join(s.Dir, key+".smt2")
	os.WriteFile(file, []byte(q), 0o644)
	timeout := s.Timeout
	if o.Smoke {
		timeout = 2 * time.Second
	}
	ctx, cancel := context.WithCancel(context.Background())
	defer cancel()
	cfgs := solverCfgs
	if o.Smoke {
		cfgs = solverCfgs[1:2] // cvc5 for smoke
		if strings.Contains(o.Name, "#smoke[entry]") {
			cfgs = solverCfgs[0:2] // background + precondition consistency: z3-new as well (any unsat = vacuous)
		}
	}
	ch := make(chan solveResult, len(cfgs))
	for _, c := range cfgs {
		go func(c SolverCfg) { ch <- runSolver(ctx, c, file, timeout) }(c)
	}
	var best solveResult
	best.status = "unknown"
	var all []solveResult
	for range cfgs {
		r := <-ch
		all = append(all, r)
		s.mu.Lock()
		s.TotalSecs[r.solver] += r.secs
		s.mu.Unlock()
		if r.status == "unsat" || r.status == "sat" {
			if best.status != "unsat" && best.status != "sat" {
				best = r
			} else if best.status != r.status {
				best.status = "disagree"
			}
			if !s.Consensus {
				cancel()
				break
			}
		} else if best.status == "unknown" && r.status == "timeout" {
			best = r
		} else if best.status == "unknown" && r.status == "error" && best.out == "" {
			best = r
		}
	}
	// A timeout may be load-induced (several checks sharing the machine). Retry a bounded number of such obligations
	// (four) one at a time with twice the budget before reporting them undischarged.
	if best.status == "timeout" && !o.Smoke {
		s.mu.Lock()
		retry := s.retries < 4 && os.Getenv("GOVC_NORETRY") == ""
		if retry {
			s.retries++
		}
		s.mu.Unlock()
		if retry {
			s.retryMu.Lock()
			rctx, rcancel := context.WithCancel(context.Background())
			rch := make(chan solveResult, len(cfgs))
			for _, c := range cfgs {
				go func(c SolverCfg) { rch <- runSolver(rctx, c, file, 2*timeout) }(c)
			}
			for range cfgs {
				r := <-rch
				s.mu.Lock()
				s.TotalSecs[r.solver] += r.secs
				s.mu.Unlock()
				if r.status == "unsat" || r.status == "sat" {
					best = r
					best.solver += "(retry)"
					break
				}
			}
			rcancel()
			s.retryMu.Unlock()
		}
	}
	s.mu.Lock()
	s.cache[key] = best
	s.Counts[best.solver+":"+best.status]++
	s.mu.Unlock()
	o.Status, o.Solver, o.Secs = best.status, best.solver, best.secs
	if best.status != "unsat" {
		o.Model = best.out
		if len(o.Model) > 4000 {
			o.Model = o.Model[:4000]
		}
	} else if !o.Smoke {
		if keep := os.Getenv("GOVC_KEEP"); keep != "" && strings.Contains(o.Name, keep) {
			fmt.Fprintf(os.Stderr, "kept %s: %s by %s trace=%v\n", o.Name, file, best.solver, o.Trace)
		} else {
			os.Remove(file)
		}
	}
	if o.Smoke {
		os.Remove(file)
	}
}

func (s *Solver) SolveAll(obls []*Obligation, workers int) {
	var wg sync.WaitGroup
	ch := make(chan *Obligation)
	for i := 0; i < workers; i++ {
		wg.Add(1)
		go func() {
			defer wg.Done()
			for o := range ch {
				s.Solve(o)
			}
		}()
	}
	for _, o := range obls {
		ch <- o
	}
	close(ch)
	wg.Wait()
}
