package main

// Property driver: ./govc -property Cxx -tier quick|thorough
// Reads /verif/properties.cfg.json (function cone per property), generates and discharges all obligations of the
// cone from the current /repo working tree, writes /verif/evidence/<id>.json, prints VIOLATION / KNOWN-FINDING lines.

import (
	"encoding/json"
	"fmt"
	"os"
	"path/filepath"
	"regexp"
	"sort"
	"strconv"
	"strings"
	"time"

	"golang.org/x/tools/go/ssa"
)

type PropCfg struct {
	Funcs    []string `json:"funcs"`              // short function names (exact) or prefixes ending with '*'
	Kinds    []string `json:"kinds,omitempty"`    // obligation kinds to include (empty = all)
	Exclude  []string `json:"exclude,omitempty"`  // regexps of obligation names excluded (with reason in Note)
	Note     string   `json:"note,omitempty"`
	Bounded  []string `json:"bounded,omitempty"`  // descriptions of bounded stand-ins (never counted as proved)
	Residual []string `json:"residual,omitempty"` // clauses of the statement not covered
}

type KnownFinding struct {
	Prop       string
	Obligation string // exact obligation name
	Desc       string
	Fixed      bool
}

func loadKnownFindings(path string) []KnownFinding {
	data, err := os.ReadFile(path)
	if err != nil {
		return nil
	}
	var out []KnownFinding
	for _, l := range strings.Split(string(data), "\n") {
		l = strings.TrimSpace(l)
		if l == "" || strings.HasPrefix(l, "#") {
			continue
		}
		if strings.HasPrefix(l, "fixed:") {
			out = append(out, KnownFinding{Fixed: true, Desc: l})
			continue
		}
		// finding: property=Cxx obligation=<name> <description>
		if strings.HasPrefix(l, "finding:") {
			kf := KnownFinding{}
			rest := strings.TrimSpace(strings.TrimPrefix(l, "finding:"))
			f := strings.SplitN(rest, " ", 3)
			for _, p := range f[:min(2, len(f))] {
				if strings.HasPrefix(p, "property=") {
					kf.Prop = strings.TrimPrefix(p, "property=")
				}
				if strings.HasPrefix(p, "obligation=") {
					kf.Obligation = strings.TrimPrefix(p, "obligation=")
				}
			}
			if len(f) == 3 {
				kf.Desc = f[2]
			}
			out = append(out, kf)
		}
	}
	return out
}

type namedResult struct {
	Name      string   `json:"name"`
	Instances int      `json:"instances"`
	Status    string   `json:"status"`
	Solver    string   `json:"solver"`
	Secs      float64  `json:"secs"`
	Pos       string   `json:"pos,omitempty"`
	Clause    string   `json:"clause,omitempty"`
	bad       *Obligation
	smoke     bool
}

func verifDir() string {
	if d := os.Getenv("VERIF_DIR"); d != "" {
		return d
	}
	return "/verif"
}

func runProperty(repo, specs, prop, tier, out string) int {
	t0 := time.Now()
	vd := verifDir()
	seed := 0
	if s := os.Getenv("VERIF_SEED"); s != "" {
		seed, _ = strconv.Atoi(s)
	}
	if t := os.Getenv("VERIF_TIER"); t != "" && tier == "" {
		tier = t
	}
	if tier != "thorough" {
		tier = "quick"
	}
	cfgData, err := os.ReadFile(filepath.Join(vd, "properties.cfg.json"))
	if err != nil {
		fmt.Fprintln(os.Stderr, "cannot read properties.cfg.json:", err)
		return 2
	}
	var cfgs map[string]PropCfg
	if err := json.Unmarshal(cfgData, &cfgs); err != nil {
		fmt.Fprintln(os.Stderr, "bad properties.cfg.json:", err)
		return 2
	}
	cfg, ok := cfgs[prop]
	if !ok {
		fmt.Fprintln(os.Stderr, "unknown property", prop)
		return 2
	}
	p, err := LoadProg(repo, []string{specs})
	replayDir := filepath.Join(vd, "out", "replay")
	if alt := os.Getenv("VERIF_SCRATCH_OUT"); alt != "" {
		// self-test runs against mutated scratch copies must not overwrite real evidence
		replayDir = filepath.Join(alt, "replay")
	}
	os.MkdirAll(replayDir, 0o755)
	os.MkdirAll(evidenceDir(vd), 0o755)
	if err != nil {
		// the tree does not load (or a contract file does not parse): undecided, reported as a violation of tooling input
		rf := filepath.Join(replayDir, prop+"-load.json")
		writeJSON(rf, map[string]any{"obligation": "load", "error": err.Error()})
		fmt.Printf("VIOLATION property=%s replay=%s obligation=load no-failing-input-found\n", prop, rf)
		writeEvidence(vd, prop, tier, seed, nil, nil, []string{"load failed: " + err.Error()}, nil, time.Since(t0), 1, cfg, nil, nil)
		return 1
	}
	timeout := 10 * time.Second
	if tier == "thorough" {
		timeout = 60 * time.Second
	}
	if alt := os.Getenv("VERIF_SCRATCH_OUT"); alt != "" {
		out = filepath.Join(alt, "smt")
	}
	solver := NewSolver(filepath.Join(out, prop), timeout, tier == "thorough")
	// select functions
	var fns []*ssa.Function
	matched := map[string]bool{}
	for _, fn := range p.Funcs {
		if fn.Parent() != nil {
			continue
		}
		sn := p.ShortName(fn)
		for _, pat := range cfg.Funcs {
			if pat == sn || (strings.HasSuffix(pat, "*") && strings.HasPrefix(sn, strings.TrimSuffix(pat, "*"))) {
				if pat != sn && p.Contracts[fn.String()] == nil && !fn.Object().Exported() && len(fn.Blocks) > 0 && len(NewExec(p, fn).loopsOf(fn)) == 0 {
					// an unexported loop-free helper without a contract, matched by a wildcard only: it is verified in
					// place at each of its call sites (calls.go), in the context its callers establish, not on its own
					// for arbitrary arguments
					matched[pat] = true
					break
				}
				fns = append(fns, fn)
				matched[pat] = true
				break
			}
		}
	}
	sort.Slice(fns, func(i, j int) bool { return fns[i].String() < fns[j].String() })
	var results []*namedResult
	var failures []*namedResult
	addFailure := func(name, status, clause string) {
		r := &namedResult{Name: name, Instances: 1, Status: status, Clause: clause}
		results = append(results, r)
		failures = append(failures, r)
	}
	for _, pat := range cfg.Funcs {
		if !matched[pat] {
			addFailure(pat+"#bind[function]", "bind-error", "function named by the property cone no longer exists")
		}
	}
	for _, e := range p.BindErrs {
		addFailure("contracts#bind["+e+"]", "bind-error", e)
	}
	// termination: loops carry decreases obligations; recursion has no measure in the contract language
	recursive := map[string]bool{}
	for _, r := range p.RecursiveFuncs() {
		recursive[r] = true
	}
	for _, fn := range fns {
		if sn := p.ShortName(fn); recursive[sn] {
			addFailure(sn+"#termination[recursion]", "unsupported", "function lies on a cycle of the static call graph: termination not proved")
		}
	}
	var kindSet map[string]bool
	if len(cfg.Kinds) > 0 {
		kindSet = map[string]bool{}
		for _, k := range cfg.Kinds {
			kindSet[k] = true
		}
	}
	var excl []*regexp.Regexp
	for _, e := range cfg.Exclude {
		excl = append(excl, regexp.MustCompile(e))
	}
	usedExterns := map[string]bool{}
	defaultExterns := map[string]bool{}
	usedContracts := map[string]bool{}
	assumptions := map[string]bool{}
	var funcsUnder []string
	var allObls []*Obligation
	type fnRun struct {
		x *Exec
	}
	var runs []fnRun
	genStart := time.Now()
	for _, fn := range fns {
		x := NewExec(p, fn)
		x.Run()
		if len(x.Unsupported) == 1 && strings.Contains(x.Unsupported[0], "unknown identifier") {
			if x2 := tryRebind(p, fn, x, solver, nil, 0); x2 != nil {
				x = x2
			}
		}
		runs = append(runs, fnRun{x})
		tag := "contract"
		if x.FC == nil {
			tag = "safety-only"
		} else if x.FC.Trusted {
			tag = "trusted"
		}
		funcsUnder = append(funcsUnder, x.short+" ("+tag+")")
		for _, u := range x.Unsupported {
			addFailure(x.short+"#unsupported["+u+"]", "unsupported", u)
		}
		for k := range x.UsedExterns {
			usedExterns[k] = true
		}
		for k := range x.DefaultExterns {
			defaultExterns[k] = true
		}
		for k := range x.UsedContracts {
			usedContracts[k] = true
		}
		for k := range x.Assumptions {
			assumptions[k] = true
		}
		for _, o := range x.Obls {
			if kindSet != nil && !o.Smoke {
				k := o.Kind
				if strings.HasPrefix(k, "loop") {
					k = "loop"
				}
				if !kindSet[k] {
					continue
				}
			}
			skip := false
			for _, re := range excl {
				if re.MatchString(o.Name) {
					skip = true
				}
			}
			if skip {
				continue
			}
			allObls = append(allObls, o)
		}
	}
	genSecs := time.Since(genStart).Seconds()
	solveStart := time.Now()
	solver.SolveAll(allObls, 16)
	solveSecs := time.Since(solveStart).Seconds()
	// aggregate
	agg := aggregate(allObls)
	nObl, nDis := 0, 0
	for _, a := range agg {
		r := &namedResult{Name: a.name, Instances: a.n, Status: "discharged", Solver: a.solver, Pos: a.pos}
		if strings.Contains(a.name, "#smoke[") {
			r.smoke = true
			if !a.ok {
				r.Status = "vacuous"
				r.bad = a.bad
				failures = append(failures, r)
			} else {
				r.Status = "reachable"
			}
			results = append(results, r)
			continue
		}
		nObl++
		if a.ok {
			nDis++
		} else {
			r.Status = strings.TrimPrefix(a.status, "FAIL:")
			r.bad = a.bad
			if a.bad != nil {
				r.Clause = a.bad.Clause
			}
			failures = append(failures, r)
		}
		results = append(results, r)
	}
	if nObl == 0 {
		addFailure(prop+"#vacuity[no-obligations]", "vacuous", "the property cone generated no obligations")
	}
	// known findings
	kfs := loadKnownFindings(filepath.Join(vd, "KNOWN_FINDINGS.txt"))
	violations := 0
	var knownSeen []string
	replayBudget := 4 // failed obligations for which a failing input is searched (model, unrolled search, go test)
	replayDeadline = time.Now().Add(100 * time.Second) // the search must not turn a quick check into a slow one
	if tier == "thorough" {
		replayBudget = 12
		replayDeadline = time.Now().Add(12 * time.Minute)
	}
	if os.Getenv("VERIF_NO_REPLAY") != "" {
		replayBudget = 0 // must-fail corpus runs only need the verdict
	}
	for _, f := range failures {
		known := false
		for _, kf := range kfs {
			if !kf.Fixed && kf.Prop == prop && kf.Obligation == f.Name {
				known = true
				fmt.Printf("KNOWN-FINDING: property=%s %s: %s\n", prop, f.Name, kf.Desc)
				knownSeen = append(knownSeen, f.Name)
			}
		}
		if known {
			continue
		}
		violations++
		rf := filepath.Join(replayDir, prop+"-"+sanitize(f.Name)+".json")
		rep := map[string]any{"property": prop, "obligation": f.Name, "status": f.Status, "clause": f.Clause, "pos": f.Pos}
		suffix := " no-failing-input-found"
		if f.bad != nil {
			rep["trace"] = f.bad.Trace
			rep["solver"] = f.bad.Solver
			rep["solver_output"] = f.bad.Model
			qf := strings.TrimSuffix(rf, ".json") + ".smt2"
			os.WriteFile(qf, []byte(f.bad.Query(true)), 0o644)
			rep["query"] = qf
			if replayBudget > 0 && !f.smoke && f.bad.X != nil && time.Now().Before(replayDeadline) {
				// try to obtain a model and replay it on the real code (a bounded number per run)
				replayBudget--
				if ok, info := tryReplay(p, f.bad, rf, repo); ok {
					suffix = ""
					rep["replay"] = info
					if m, isMap := info.(map[string]any); isMap {
						rep["go_test"] = m["go_test"]
					}
				} else if info != nil {
					rep["replay"] = info
				}
			}
		}
		writeJSON(rf, rep)
		fmt.Printf("VIOLATION property=%s replay=%s obligation=%s status=%s%s\n", prop, rf, f.Name, f.Status, suffix)
	}
	// evidence
	var trusted []string
	for _, k := range sortedKeys(usedExterns) {
		trusted = append(trusted, "assumed contract: "+k)
	}
	for _, k := range sortedKeys(defaultExterns) {
		trusted = append(trusted, "default external contract (arbitrary result, no effect, no panic): "+k)
	}
	for _, k := range sortedKeys(assumptions) {
		trusted = append(trusted, "modelling: "+k)
	}
	trusted = append(trusted,
		"modelling: integers are mathematical in the formulas, made exact by proof: every +, -, *, << and unary - of the functions under contract carries an overflow obligation against its Go type (int/uint = 64 bits), integer conversions wrap modulo 2^N, values read from inputs, the heap and callees are assumed within their type's range, len/cap <= MaxInt64; x509.KeyUsage is a 32-bit vector",
		"modelling: string and []byte contents are abstract (length, equality, literals distinct)",
		"modelling: time.Time is an integer instant; zone and monotonic reading dropped",
		"modelling: append always reallocates; no interior aliasing between different parameters",
		"go/ssa (x/tools v0.29.0) lowering and go/types; SMT solvers z3 4.8.12, z3 5.1.0, cvc5 1.0.3; the VC generator itself (guarded by the must-fail corpus)")
	var usedC []string
	for _, k := range sortedKeys(usedContracts) {
		usedC = append(usedC, k)
	}
	stats := map[string]any{
		"gen_secs": genSecs, "solve_wall_secs": solveSecs, "solver_cpu_secs": solver.TotalSecs, "answers": solver.Counts,
		"path_instances": len(allObls),
	}
	// thorough tier: bounded cross-check that does not go through the loop invariants or the loop havoc. Every function
	// under contract is run again with its loops unrolled twice; a postcondition or safety obligation of an unrolled
	// path for which a solver finds a model is replayed on the real code, and only a failure of the real code is
	// reported. (The loop-cut proof and the unrolled search share the memory model but not the treatment of loops, which
	// is where the machinery's own soundness bugs were found.)
	if tier == "thorough" && os.Getenv("VERIF_NO_REPLAY") == "" {
		bcStart := time.Now()
		var bcSolver *Solver
		nFn, nObls, nSat, nRepro := 0, 0, 0, 0
		for _, fr := range runs {
			if fr.x.FC == nil || fr.x.FC.Trusted || time.Since(bcStart) > 4*time.Minute {
				continue
			}
			if len(fr.x.loops) == 0 {
				continue
			}
			hasLoop := false
			for _, m := range fr.x.loops {
				if len(m) > 0 {
					hasLoop = true
				}
			}
			if !hasLoop {
				continue
			}
			nFn++
			x2 := NewExec(p, fr.x.Fn)
			x2.Unroll = 2
			x2.MaxStates = 1500
			func() {
				defer func() { recover() }()
				x2.Run()
			}()
			var cands []*Obligation
			for _, o := range x2.Obls {
				if o.Smoke || o.Goal == "true" {
					continue
				}
				if o.Kind == "post" || o.Kind == "nil" || o.Kind == "bounds" || o.Kind == "typeassert" || o.Kind == "hashable" || o.Kind == "div0" || o.Kind == "nilmap" {
					cands = append(cands, o)
				}
			}
			nObls += len(cands)
			if bcSolver == nil {
				bcSolver = NewSolver(filepath.Join(out, prop+"-bounded"), 8*time.Second, false)
			}
			bcSolver.SolveAll(cands, 16)
			tried := 0
			for _, o := range cands {
				// anything not refuted is worth a model search (a definitive `sat` is rare: the queries carry
				// quantified background axioms); what counts is only whether the real code fails on the input
				if o.Status == "unsat" || tried >= 3 || time.Since(bcStart) > 5*time.Minute {
					continue
				}
				nSat++
				tried++
				rf := filepath.Join(replayDir, prop+"-bounded-"+sanitize(o.Name)+".json")
				ok, info := tryReplayOne(p, o, rf, repo)
				if m, isMap := info.(map[string]any); isMap && ok {
					if all, _ := m["all_preconditions_checked_at_run_time"].(bool); !all {
						ok = false // the constructed input may not meet a precondition that could not be checked
					}
				}
				if ok {
					nRepro++
					violations++
					rep := map[string]any{"property": prop, "obligation": o.Name + " (loops unrolled twice)", "status": "sat", "clause": o.Clause, "pos": o.Pos, "replay": info}
					if m, isMap := info.(map[string]any); isMap {
						rep["go_test"] = m["go_test"]
					}
					writeJSON(rf, rep)
					fmt.Printf("VIOLATION property=%s replay=%s obligation=%s status=sat-on-unrolled-path\n", prop, rf, o.Name)
				}
			}
		}
		stats["bounded_crosscheck"] = map[string]any{"functions_with_loops": nFn, "unroll": 2, "obligations": nObls, "not_refuted_and_searched": nSat, "reproduced_on_real_code": nRepro,
			"secs": time.Since(bcStart).Seconds(), "note": "bounded stand-in, never counted as proved: searches for failing inputs independently of the loop invariants"}
	}
	writeEvidence(vd, prop, tier, seed, results, funcsUnder, trusted, usedC, time.Since(t0), violations, cfg, stats, knownSeen)
	fmt.Printf("%s %s: %d named obligations, %d discharged, %d functions, %d violations, %d known findings, %.1fs\n",
		prop, tier, nObl, nDis, len(fns), violations, len(knownSeen), time.Since(t0).Seconds())
	if violations > 0 {
		return 1
	}
	return 0
}

func writeJSON(path string, v any) {
	b, _ := json.MarshalIndent(v, "", " ")
	os.WriteFile(path, b, 0o644)
}

func writeEvidence(vd, prop, tier string, seed int, results []*namedResult, funcs, trusted, usedContracts []string, wall time.Duration, violations int, cfg PropCfg, stats map[string]any, known []string) {
	nObl, nDis, nSmoke := 0, 0, 0
	var samples []any
	var undischarged []any
	bySolver := map[string]int{}
	for _, r := range results {
		if r.smoke {
			nSmoke++
			continue
		}
		nObl++
		if r.Status == "discharged" {
			nDis++
			bySolver[strings.TrimSuffix(r.Solver, "(cached)")]++
		} else {
			undischarged = append(undischarged, map[string]any{"name": r.Name, "status": r.Status, "clause": r.Clause})
		}
		if len(samples) < 12 && r.Status == "discharged" && r.Solver != "trivial" {
			samples = append(samples, map[string]any{"obligation": r.Name, "path_instances": r.Instances, "answer": "unsat", "solver": r.Solver, "pos": r.Pos})
		}
	}
	if len(samples) == 0 {
		for _, r := range results {
			if len(samples) < 5 {
				samples = append(samples, map[string]any{"obligation": r.Name, "status": r.Status})
			}
		}
	}
	if trusted == nil {
		trusted = []string{}
	}
	cov := map[string]any{
		"obligations":           nObl,
		"discharged":            nDis,
		"checker_cmd":           fmt.Sprintf("cd /verif && ./check %s %s   # govc: weakest-precondition VCs over go/ssa of /repo's working tree, discharged by z3 4.8.12 / z3 5.1.0 / cvc5 1.0.3", prop, tier),
		"trusted_base":          trusted,
		"samples":               samples,
		"functions_under_contract": funcs,
		"callee_contracts_used": usedContracts,
		"vacuity_sites_checked": nSmoke,
		"discharged_by_backend": bySolver,
		"undischarged":          undischarged,
		"known_findings_seen":   known,
		"bounded":               cfg.Bounded,
		"residual_clauses_not_covered": cfg.Residual,
		"stats":                 stats,
		"explanation":           "Each named obligation is pc => goal generated by symbolic execution of the real function's go/ssa (loops cut at checked invariants, callees replaced by their contracts); it counts as discharged only if every path instance is unsat.",
	}
	ev := map[string]any{
		"property_id": prop,
		"tier":        tier,
		"seed":        seed,
		"level":       "proof",
		"coverage":    cov,
		"assumptions": trusted,
		"wall_s":      wall.Seconds(),
		"violations":  violations,
	}
	writeJSON(filepath.Join(evidenceDir(vd), prop+".json"), ev)
}

// tryReplay: see replay.go

func evidenceDir(vd string) string {
	if alt := os.Getenv("VERIF_SCRATCH_OUT"); alt != "" {
		return filepath.Join(alt, "evidence")
	}
	return filepath.Join(vd, "evidence")
}
