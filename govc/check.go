package main

func runProperty(repo, specs, prop, tier, out string) int {
	return 2
}
