package main

import (
	"fmt"
	"go/constant"
	"go/types"
	"strconv"
	"strings"

	"golang.org/x/tools/go/ssa"
)

// Env is the evaluation environment of a contract expression.
type Env struct {
	x      *Exec
	st     *State // state whose heap is read
	old    *State // state for old(); nil = st
	vars   map[string]Value
	cf     *ContractFile
	locals func(name string) (Value, bool)
	alias  map[string]string // loop invariants only: contract identifier -> (renamed) local, see rebind.go
	clause Clause
	allocAtCall string // for fresh() at call sites: allocation counter before the call
	depth  int
}

func (e *Env) child() *Env {
	n := *e
	n.vars = make(map[string]Value, len(e.vars)+2)
	for k, v := range e.vars {
		n.vars[k] = v
	}
	return &n
}

func (e *Env) errf(format string, a ...any) {
	msg := fmt.Sprintf(format, a...)
	panic(unsupportedErr(fmt.Sprintf("contract %s:%d: %s (in %q)", shortPath(e.clause.File), e.clause.Line, msg, e.clause.Src)))
}

func shortPath(p string) string {
	if i := strings.LastIndex(p, "/"); i >= 0 {
		j := strings.LastIndex(p[:i], "/")
		return p[j+1:]
	}
	return p
}

// entryEnv: environment for requires at function entry / invariants: params by name.
func (x *Exec) entryEnv(st *State) *Env {
	env := &Env{x: x, st: st, old: x.init, vars: map[string]Value{}, cf: x.CF}
	for n, v := range x.params {
		env.vars[n] = v
	}
	return env
}

func (x *Exec) evalBool(env *Env, e Expr, c Clause) string {
	env.clause = c
	v := env.eval(e)
	if v.Sort != SBool {
		env.errf("boolean expected, got %s", v.Sort)
	}
	return v.Term
}

func boolV(t string) Value { return Value{Term: t, Sort: SBool, Typ: types.Typ[types.Bool]} }
func intV(t string) Value  { return Value{Term: t, Sort: SInt, Typ: types.Typ[types.Int]} }

func (e *Env) eval(ex Expr) Value {
	x := e.x
	switch ex := ex.(type) {
	case *EBool:
		if ex.V {
			return boolV("true")
		}
		return boolV("false")
	case *EInt:
		n, err := strconv.ParseInt(ex.V, 0, 64)
		if err != nil {
			e.errf("bad integer %s", ex.V)
		}
		return Value{Term: IntLit(n), Sort: SInt, Typ: types.Typ[types.UntypedInt]}
	case *EStr:
		s, err := strconv.Unquote(`"` + ex.V + `"`)
		if err != nil {
			s = ex.V
		}
		return Value{Term: x.strLit(s), Sort: SStr, Typ: types.Typ[types.String]}
	case *ENil:
		return Value{Term: "nil", Sort: "Nil", Typ: types.Typ[types.UntypedNil]}
	case *EType:
		t, err := x.P.ResolveType(ex.T, e.cf)
		if err != nil {
			e.errf("%v", err)
		}
		return intV(fmt.Sprintf("%d", x.TM.Tag(t)))
	case *EIdent:
		return e.ident(ex.Name)
	case *EOld:
		n := e.child()
		if e.old != nil {
			n.st = e.old
		}
		n.clause = e.clause
		return n.eval(ex.X)
	case *EUnary:
		v := e.eval(ex.X)
		switch ex.Op {
		case "!":
			if v.Sort != SBool {
				e.errf("! on non-bool")
			}
			return boolV(Not(v.Term))
		case "-":
			return Value{Term: app("-", v.Term), Sort: v.Sort, Typ: v.Typ}
		case "*":
			return x.load(e.st, v, false)
		}
	case *EBinary:
		return e.binary(ex)
	case *EIte:
		c := e.eval(ex.C)
		a := e.eval(ex.A)
		b := e.eval(ex.B)
		a, b = e.unifyNil(a, b)
		r := a
		r.Term = Ite(c.Term, x.asTerm(a), x.asTerm(b))
		r.Ptr = nil
		return r
	case *EQuant:
		n := e.child()
		n.clause = e.clause
		var bs []string
		for _, b := range ex.Vars {
			t, err := x.P.ResolveType(b.Type, e.cf)
			if err != nil {
				e.errf("%v", err)
			}
			s := x.TM.Sort(t)
			x.bvSeq++
			name := fmt.Sprintf("%s!b%d", b.Name, x.bvSeq)
			n.vars[b.Name] = Value{Term: name, Sort: s, Typ: t}
			bs = append(bs, fmt.Sprintf("(%s %s)", name, s))
		}
		body := n.eval(ex.Body)
		if body.Sort != SBool {
			e.errf("quantifier body must be boolean")
		}
		q := "exists"
		if ex.Forall {
			q = "forall"
		}
		if body.Term == "true" || body.Term == "false" {
			return boolV(body.Term)
		}
		return boolV(fmt.Sprintf("(%s (%s) %s)", q, strings.Join(bs, " "), body.Term))
	case *ESel:
		return e.sel(ex)
	case *EIndex:
		return e.index(ex)
	case *ECall:
		return e.call(ex)
	}
	e.errf("unsupported expression %T", ex)
	return Value{}
}

func (e *Env) ident(name string) Value {
	if v, ok := e.vars[name]; ok {
		return v
	}
	if e.locals != nil {
		if v, ok := e.locals(name); ok {
			return v
		}
		if al, ok := e.alias[name]; ok {
			if v, ok := e.locals(al); ok {
				return v
			}
		}
	}
	// package-level object of the contract's package
	if e.cf != nil && e.cf.PkgPath != "" {
		if v, ok := e.pkgMember(e.cf.PkgPath, name); ok {
			return v
		}
	}
	e.errf("unknown identifier %s", name)
	return Value{}
}

func (e *Env) pkgMember(path, name string) (Value, bool) {
	x := e.x
	tp := x.P.TPkgs[path]
	if tp == nil {
		return Value{}, false
	}
	o := tp.Scope().Lookup(name)
	if o == nil {
		return Value{}, false
	}
	switch o := o.(type) {
	case *types.Const:
		t := o.Type()
		if b, ok := t.(*types.Basic); ok && b.Info()&types.IsUntyped != 0 {
			t = types.Default(t)
		}
		c := ssa.NewConst(o.Val(), t)
		if o.Val().Kind() == constant.Int && x.TM.Sort(t) == SInt {
			return Value{Term: constIntTerm(o.Val()), Sort: SInt, Typ: t}, true
		}
		return x.constVal(e.st, c), true
	case *types.Var:
		sp := x.P.SPkgs[path]
		if sp == nil {
			return Value{}, false
		}
		g, ok := sp.Members[name].(*ssa.Global)
		if !ok {
			return Value{}, false
		}
		return x.load(e.st, x.globalPtr(g), false), true
	}
	return Value{}, false
}

func constIntTerm(v constant.Value) string {
	s := v.ExactString()
	if strings.HasPrefix(s, "-") {
		return "(- " + s[1:] + ")"
	}
	return s
}

func (e *Env) unifyNil(a, b Value) (Value, Value) {
	x := e.x
	conv := func(n Value, o Value) Value {
		if n.Sort != "Nil" {
			return n
		}
		if o.Ptr != nil {
			return Value{Term: "0", Sort: SInt, Typ: o.Typ}
		}
		switch o.Sort {
		case SIface:
			return Value{Term: "(mk_iface 0 any_nil)", Sort: SIface, Typ: o.Typ}
		case SSlice:
			return Value{Term: "(mk_slice 0 0 0)", Sort: SSlice, Typ: o.Typ}
		case SInt:
			return Value{Term: "0", Sort: SInt, Typ: o.Typ}
		}
		_ = x
		e.errf("nil compared with %s", o.Sort)
		return n
	}
	return conv(a, b), conv(b, a)
}

func (e *Env) binary(ex *EBinary) Value {
	x := e.x
	switch ex.Op {
	case "&&", "||", "==>", "<==>":
		a := e.eval(ex.X)
		if a.Sort == SBool && a.Term == "false" && (ex.Op == "&&" || ex.Op == "==>") {
			// short-circuit: the right operand may be ill-defined on this path (e.g. lastret without a call)
			if ex.Op == "&&" {
				return boolV("false")
			}
			return boolV("true")
		}
		b := e.eval(ex.Y)
		if a.Sort != SBool || b.Sort != SBool {
			e.errf("%s needs booleans (got %s, %s)", ex.Op, a.Sort, b.Sort)
		}
		switch ex.Op {
		case "&&":
			return boolV(And(a.Term, b.Term))
		case "||":
			return boolV(Or(a.Term, b.Term))
		case "==>":
			return boolV(Implies(a.Term, b.Term))
		default:
			return boolV(Eq(a.Term, b.Term))
		}
	}
	a := e.eval(ex.X)
	b := e.eval(ex.Y)
	a, b = e.unifyNil(a, b)
	// untyped integer constants adapt to bit-vector operands
	if a.Sort == SBV && b.Sort == SInt {
		b = e.toBV(b)
	}
	if b.Sort == SBV && a.Sort == SInt {
		a = e.toBV(a)
	}
	switch ex.Op {
	case "==", "!=":
		eq := x.equal(e.st, a, b, nil)
		if ex.Op == "!=" {
			eq = Not(eq)
		}
		return boolV(eq)
	case "<", "<=", ">", ">=":
		if a.Sort != SInt || b.Sort != SInt {
			e.errf("comparison of %s and %s", a.Sort, b.Sort)
		}
		return boolV(app(ex.Op, a.Term, b.Term))
	case "+", "-", "*":
		if a.Sort == SStr && ex.Op == "+" {
			f := x.D.Fun("str.concat", []string{SStr, SStr}, SStr)
			return Value{Term: app(f, a.Term, b.Term), Sort: SStr, Typ: a.Typ}
		}
		t := a.Typ
		if isUntyped(t) {
			t = b.Typ
		}
		return Value{Term: app(ex.Op, a.Term, b.Term), Sort: SInt, Typ: t}
	case "/":
		return Value{Term: app("div", a.Term, b.Term), Sort: SInt, Typ: a.Typ}
	case "%":
		return Value{Term: app("mod", a.Term, b.Term), Sort: SInt, Typ: a.Typ}
	case "&", "|", "&^":
		if a.Sort == SBV {
			switch ex.Op {
			case "&":
				return Value{Term: app("bvand", a.Term, b.Term), Sort: SBV, Typ: a.Typ}
			case "|":
				return Value{Term: app("bvor", a.Term, b.Term), Sort: SBV, Typ: a.Typ}
			default:
				return Value{Term: app("bvand", a.Term, app("bvnot", b.Term)), Sort: SBV, Typ: a.Typ}
			}
		}
	}
	e.errf("unsupported operator %s on %s", ex.Op, a.Sort)
	return Value{}
}

func isUntyped(t types.Type) bool {
	b, ok := t.(*types.Basic)
	return ok && b.Info()&types.IsUntyped != 0
}

func (e *Env) toBV(v Value) Value {
	var n int64
	if _, err := fmt.Sscanf(v.Term, "%d", &n); err == nil {
		return Value{Term: fmt.Sprintf("#x%08x", uint32(n)), Sort: SBV, Typ: v.Typ}
	}
	return Value{Term: app("(_ int2bv 32)", v.Term), Sort: SBV, Typ: v.Typ}
}

func (e *Env) sel(ex *ESel) Value {
	x := e.x
	// package-qualified?
	if id, ok := ex.X.(*EIdent); ok {
		vv, isVar := e.vars[id.Name]
		isLocal := false
		if !isVar && e.locals != nil {
			vv, isLocal = e.locals(id.Name)
		}
		shadow := (isVar || isLocal) && valueHasField(vv, ex.Name)
		if !shadow {
			if tp := e.lookupPkgName(id.Name); tp != nil {
				if v, ok := e.pkgMember(tp.Path(), ex.Name); ok {
					return v
				}
				if !isVar && !isLocal {
					e.errf("unknown member %s.%s", id.Name, ex.Name)
				}
			}
		}
	}
	v := e.eval(ex.X)
	if v.Tup != nil {
		// multi-result pure call: .err / .resultN / .N
		switch {
		case ex.Name == "err":
			return v.Tup[len(v.Tup)-1]
		case strings.HasPrefix(ex.Name, "result"):
			n, _ := strconv.Atoi(strings.TrimPrefix(ex.Name, "result"))
			return v.Tup[n]
		default:
			n, err := strconv.Atoi(ex.Name)
			if err == nil && n < len(v.Tup) {
				return v.Tup[n]
			}
		}
		e.errf("bad tuple selector %s", ex.Name)
	}
	if v.Typ == nil {
		e.errf("selector %s on untyped value", ex.Name)
	}
	return x.selectField(e, v, ex.Name)
}

func (e *Env) lookupPkgName(name string) *types.Package {
	if e.cf != nil {
		if path, ok := e.cf.Imports[name]; ok {
			return e.x.P.TPkgs[path]
		}
	}
	// standard-library packages by bare name (no '/' in path)
	if tp, ok := e.x.P.TPkgs[name]; ok {
		return tp
	}
	return nil
}

// selectField reads field `name` of v (auto-dereferencing pointers; promoted fields through embedding).
func (x *Exec) selectField(e *Env, v Value, name string) Value {
	t := types.Unalias(v.Typ)
	if pt, ok := t.Underlying().(*types.Pointer); ok {
		stt, ok := types.Unalias(pt.Elem()).Underlying().(*types.Struct)
		if !ok {
			e.errf("selector %s on pointer to non-struct %v", name, pt.Elem())
		}
		idx, path := findField(stt, name)
		if idx < 0 {
			e.errf("no field %s in %v", name, pt.Elem())
		}
		var p *Pointer
		if v.Ptr != nil {
			p = v.Ptr
		} else {
			p = &Pointer{Base: v.Term, Elem: pt.Elem()}
		}
		cur := Value{Typ: v.Typ, Sort: SInt, Ptr: p}
		curStruct := pt.Elem()
		curSt := stt
		for _, fi := range path {
			np := &Pointer{Cell: cur.Ptr.Cell, Frame: cur.Ptr.Frame, Base: cur.Ptr.Base, ElemBaseSort: cur.Ptr.ElemBaseSort,
				Steps: append(append([]Step(nil), cur.Ptr.Steps...), Step{Field: fi, Struct: curStruct, St: curSt}), Elem: curSt.Field(fi).Type()}
			cur = Value{Typ: types.NewPointer(curSt.Field(fi).Type()), Sort: SInt, Ptr: np}
			curStruct = curSt.Field(fi).Type()
			if s2, ok := types.Unalias(curStruct).Underlying().(*types.Struct); ok {
				curSt = s2
			}
		}
		return x.load(e.st, cur, false)
	}
	if stt, ok := t.Underlying().(*types.Struct); ok {
		if isTime(t) {
			e.errf("field of time.Time")
		}
		idx, path := findField(stt, name)
		if idx < 0 {
			e.errf("no field %s in %v", name, v.Typ)
		}
		term := v.Term
		ct := v.Typ
		for _, fi := range path {
			cs := types.Unalias(ct).Underlying().(*types.Struct)
			term = app(x.TM.FieldSel(x.TM.Sort(ct), cs, fi), term)
			ct = cs.Field(fi).Type()
		}
		return x.mk(term, ct)
	}
	e.errf("selector %s on %v", name, v.Typ)
	return Value{}
}

func findField(st *types.Struct, name string) (int, []int) {
	for i := 0; i < st.NumFields(); i++ {
		if st.Field(i).Name() == name {
			return i, []int{i}
		}
	}
	// promoted through embedded struct (by value) one level deep
	for i := 0; i < st.NumFields(); i++ {
		f := st.Field(i)
		if f.Embedded() {
			if s2, ok := types.Unalias(f.Type()).Underlying().(*types.Struct); ok {
				if j, p := findField(s2, name); j >= 0 {
					return j, append([]int{i}, p...)
				}
			}
		}
	}
	return -1, nil
}

func (e *Env) index(ex *EIndex) Value {
	x := e.x
	b := e.eval(ex.X)
	i := e.eval(ex.I)
	if b.Typ == nil && strings.HasPrefix(b.Sort, "(Array ") {
		// ghost sets (e.g. visited): membership
		return boolV(Select(b.Term, x.asTerm(i)))
	}
	if b.Typ == nil {
		e.errf("index on untyped value")
	}
	switch u := types.Unalias(b.Typ).Underlying().(type) {
	case *types.Slice:
		if x.exploded(u.Elem()) {
			return x.loadObject(e.st, x.elemRef(app("sbase", b.Term), i.Term), u.Elem())
		}
		es := x.TM.Key(u.Elem())
		inner := Select(x.elemArr(e.st, es), app("sbase", b.Term))
		return x.mk(Select(inner, i.Term), u.Elem())
	case *types.Map:
		_, _, has, val := x.mapArrays(e.st, b.Typ)
		ok := And(Not(Eq(b.Term, "0")), Select(Select(has, b.Term), x.asTerm(i)))
		return x.mk(Ite(ok, Select(Select(val, b.Term), x.asTerm(i)), x.TM.Zero(u.Elem())), u.Elem())
	case *types.Array:
		return x.mk(Select(b.Term, i.Term), u.Elem())
	case *types.Pointer:
		if arr, ok := types.Unalias(u.Elem()).Underlying().(*types.Array); ok {
			if x.exploded(arr.Elem()) {
				return x.loadObject(e.st, x.elemRef(x.asTerm(b), i.Term), arr.Elem())
			}
			es := x.TM.Key(arr.Elem())
			inner := Select(x.elemArr(e.st, es), x.asTerm(b))
			return x.mk(Select(inner, i.Term), arr.Elem())
		}
	}
	e.errf("index on %v", b.Typ)
	return Value{}
}

func (e *Env) call(ex *ECall) Value {
	x := e.x
	// builtin forms
	if id, ok := ex.Fun.(*EIdent); ok {
		switch id.Name {
		case "len", "cap":
			v := e.eval(ex.Args[0])
			return intV(x.lenOf(e.st, v, id.Name == "cap", e))
		case "typeof":
			v := e.eval(ex.Args[0])
			if v.Sort != SIface {
				e.errf("typeof on non-interface")
			}
			return intV(app("itag", v.Term))
		case "fresh":
			v := e.eval(ex.Args[0])
			base := "A0"
			if e.allocAtCall != "" {
				base = e.allocAtCall
			}
			t := x.asTerm(v)
			if v.Sort == SSlice {
				t = app("sbase", v.Term)
			}
			return boolV(app(">=", t, base))
		case "has":
			m := e.eval(ex.Args[0])
			k := e.eval(ex.Args[1])
			_, _, has, _ := x.mapArrays(e.st, m.Typ)
			return boolV(And(Not(Eq(m.Term, "0")), Select(Select(has, m.Term), x.asTerm(k))))
		case "ncalls":
			nm := exprText(ex.Args[0])
			return intV(x.callCount(e.st, x.callKey(e.st, nm)))
		case "called":
			nm := exprText(ex.Args[0])
			if e.st.lastCall(nm) != nil {
				return boolV("true")
			}
			return boolV("false")
		case "lastret", "lastarg":
			nm := exprText(ex.Args[0])
			iv, ok := ex.Args[1].(*EInt)
			if !ok {
				e.errf("%s(Name, i)", id.Name)
			}
			var i int
			fmt.Sscanf(iv.V, "%d", &i)
			rec := e.st.lastCall(nm)
			if rec == nil {
				e.errf("no logged call of %s on this path", nm)
			}
			vs := rec.Rets
			if id.Name == "lastarg" {
				vs = rec.Args
			}
			if i >= len(vs) {
				e.errf("%s index out of range", id.Name)
			}
			return vs[i]
		case "unbox":
			v := e.eval(ex.Args[0])
			tl, ok := ex.Args[1].(*EType)
			if !ok {
				e.errf("unbox(x, type(T))")
			}
			t, err := x.P.ResolveType(tl.T, e.cf)
			if err != nil {
				e.errf("%v", err)
			}
			return x.mk(x.TM.Unbox(x.TM.Sort(t), app("ival", v.Term)), t)
		case "lent":
			sl := e.eval(ex.Args[0])
			k := e.eval(ex.Args[1])
			slt, ok := types.Unalias(sl.Typ).Underlying().(*types.Slice)
			if !ok {
				e.errf("lent(slice, k)")
			}
			return boolV(Select(x.lentArr(e.st, x.TM.ElemArray(x.TM.Key(slt.Elem())), app("sbase", sl.Term)), k.Term))
		case "allocated":
			v := e.eval(ex.Args[0])
			t := x.asTerm(v)
			if v.Sort == SSlice {
				t = app("sbase", v.Term)
			}
			return boolV(app("<", t, e.st.AllocTerm()))
		case "eqexcept":
			// eqexcept(p, q, f1, f2, ...): p and q point to structs of the same type whose fields are pairwise equal, except
			// the named ones. The field list comes from the Go type, so a field added later is covered without an edit.
			if len(ex.Args) < 2 {
				e.errf("eqexcept(p, q, fields...)")
			}
			pv := e.eval(ex.Args[0])
			pt, ok := types.Unalias(pv.Typ).Underlying().(*types.Pointer)
			if !ok {
				e.errf("eqexcept needs pointers to structs")
			}
			stt, ok := types.Unalias(pt.Elem()).Underlying().(*types.Struct)
			if !ok {
				e.errf("eqexcept needs pointers to structs")
			}
			skip := map[string]bool{}
			for _, a := range ex.Args[2:] {
				id, ok := a.(*EIdent)
				if !ok {
					e.errf("eqexcept: field names expected")
				}
				skip[id.Name] = true
			}
			var conj Expr = &EBool{V: true}
			for i := 0; i < stt.NumFields(); i++ {
				f := stt.Field(i).Name()
				if skip[f] {
					continue
				}
				conj = &EBinary{"&&", conj, &EBinary{"==", &ESel{X: ex.Args[0], Name: f}, &ESel{X: ex.Args[1], Name: f}}}
			}
			return e.eval(conj)
		case "convert":
			// convert(x, type(T)): Go's conversion T(x) with the engine's exact semantics (integers wrap modulo 2^N)
			v := e.eval(ex.Args[0])
			tl, ok := ex.Args[1].(*EType)
			if !ok || v.Typ == nil {
				e.errf("convert(x, type(T))")
			}
			t, err := x.P.ResolveType(tl.T, e.cf)
			if err != nil {
				e.errf("%v", err)
			}
			return x.convert(e.st, v, v.Typ, t)
		case "tostring":
			// conversion of a named string type to string (same value)
			v := e.eval(ex.Args[0])
			v.Typ = types.Typ[types.String]
			return v
		case "tostr":
			// string(b) for a byte slice b
			v := e.eval(ex.Args[0])
			if v.Sort != SSlice {
				e.errf("tostr needs a []byte")
			}
			f := x.D.Fun("bytes.tostr", []string{"(Array Int Int)", SInt}, SStr)
			inner := Select(x.elemArr(e.st, x.TM.Key(types.Typ[types.Uint8])), app("sbase", v.Term))
			return Value{Term: app(f, inner, app("slen", v.Term)), Sort: SStr, Typ: types.Typ[types.String]}
		case "hashable":
			v := e.eval(ex.Args[0])
			return boolV(x.hashablePred(v.Term))
		case "lentany":
			return boolV(x.lentAny(e.st))
		case "panicked":
			return boolV(x.panicked(e.st))
		case "chanlen":
			ch := e.eval(ex.Args[0])
			n, ok := x.chanGhost(e.st, ch.Term, "len")
			if !ok {
				e.errf("chanlen of unknown channel")
			}
			return intV(n)
		case "zero":
			tl, ok := ex.Args[0].(*EType)
			if !ok {
				e.errf("zero(type(T))")
			}
			t, err := x.P.ResolveType(tl.T, e.cf)
			if err != nil {
				e.errf("%v", err)
			}
			return x.mk(x.TM.Zero(t), t)
		case "box":
			v := e.eval(ex.Args[0])
			return x.makeIface(v, v.Typ, types.NewInterfaceType(nil, nil))
		case "fnresult":
			// fnresult(f, i): the i-th result of calling the closure value f on arbitrary arguments (single-path closures)
			fv := e.eval(ex.Args[0])
			iv, ok := ex.Args[1].(*EInt)
			if !ok || fv.Clo == nil {
				e.errf("fnresult(closure, i) needs a visible closure")
			}
			var idx int
			fmt.Sscanf(iv.V, "%d", &idx)
			probe := e.st.clone()
			var fargs []Value
			for _, p := range fv.Clo.Fn.Params {
				fargs = append(fargs, x.symbolicInput("fnarg."+p.Name(), p.Type(), probe))
			}
			var results []Value
			nObl := len(x.Obls)
			x.inline(probe, nil, fv.Clo.Fn, fv.Clo.Bindings, fargs, func(_ *State, r Value) { results = append(results, r) })
			x.Obls = x.Obls[:nObl]
			if len(results) != 1 {
				e.errf("fnresult: closure is not single-path")
			}
			rs := flatten(results[0])
			if idx >= len(rs) {
				e.errf("fnresult: index out of range")
			}
			return rs[idx]
		case "fieldptr":
			pv := e.eval(ex.Args[0])
			fname := exprText(ex.Args[1])
			pt, ok := types.Unalias(pv.Typ).Underlying().(*types.Pointer)
			if !ok {
				e.errf("fieldptr needs a pointer")
			}
			stt, ok := types.Unalias(pt.Elem()).Underlying().(*types.Struct)
			if !ok {
				e.errf("fieldptr needs a pointer to struct")
			}
			idx, path := findField(stt, fname)
			if idx < 0 || len(path) != 1 {
				e.errf("fieldptr: no direct field %s", fname)
			}
			var steps []Step
			base := pv.Term
			var cell *ssa.Alloc
			frame := 0
			if pv.Ptr != nil {
				steps = append(steps, pv.Ptr.Steps...)
				base = pv.Ptr.Base
				cell, frame = pv.Ptr.Cell, pv.Ptr.Frame
			}
			steps = append(steps, Step{Field: idx, Struct: pt.Elem(), St: stt})
			ft := stt.Field(idx).Type()
			return Value{Typ: types.NewPointer(ft), Sort: SInt, Ptr: &Pointer{Cell: cell, Frame: frame, Base: base, Steps: steps, Elem: ft}}
		case "elemptr":
			sl := e.eval(ex.Args[0])
			k := e.eval(ex.Args[1])
			u, ok := types.Unalias(sl.Typ).Underlying().(*types.Slice)
			if !ok {
				e.errf("elemptr needs a slice")
			}
			if x.exploded(u.Elem()) {
				r := x.elemRef(app("sbase", sl.Term), k.Term)
				return Value{Term: r, Sort: SInt, Typ: types.NewPointer(u.Elem())}
			}
			es := x.TM.Key(u.Elem())
			return Value{Typ: types.NewPointer(u.Elem()), Sort: SInt, Ptr: &Pointer{Base: app("sbase", sl.Term), Steps: []Step{{IsIndex: true, Index: k.Term, Struct: u.Elem()}}, Elem: u.Elem(), ElemBaseSort: es}}
		case "bigval":
			v := e.eval(ex.Args[0])
			f := x.D.Fun("bigval", []string{SInt}, SInt)
			return intV(app(f, x.asTerm(v)))
		case "distinctelems":
			e.errf("distinctelems unsupported")
		}
		// spec function?
		if sf := e.findSpec(id.Name); sf != nil {
			return e.applySpec(sf, ex.Args)
		}
		// pure program function f$(...)
		if strings.HasSuffix(id.Name, "$") {
			return e.applyPure(strings.TrimSuffix(id.Name, "$"), "", ex.Args)
		}
		e.errf("unknown function %s", id.Name)
	}
	if sel, ok := ex.Fun.(*ESel); ok {
		// pkg.Func(...)  or  value.Method(...)
		if id, ok := sel.X.(*EIdent); ok {
			_, isVar := e.vars[id.Name]
			isLocal := false
			if !isVar && e.locals != nil {
				_, isLocal = e.locals(id.Name)
			}
			if !isVar && !isLocal {
				if tp := e.lookupPkgName(id.Name); tp != nil {
					name := sel.Name
					if strings.HasSuffix(name, "$") {
						return e.applyPure(strings.TrimSuffix(name, "$"), tp.Path(), ex.Args)
					}
					// spec function of another package?
					if sf, ok := x.P.Specs[tp.Path()+"."+name]; ok {
						return e.applySpec(sf, ex.Args)
					}
					// extern function
					full := tp.Path() + "." + name
					var args []Value
					for _, a := range ex.Args {
						args = append(args, e.eval(a))
					}
					return x.applyExternPure(e, full, args, nil)
				}
			}
		}
		recv := e.eval(sel.X)
		var args []Value
		args = append(args, recv)
		for _, a := range ex.Args {
			args = append(args, e.eval(a))
		}
		full, sig := methodFullName(recv.Typ, sel.Name)
		if full == "" {
			e.errf("no method %s on %v", sel.Name, recv.Typ)
		}
		// auto-dereference: value-receiver method called through a pointer
		if sig != nil && sig.Recv() != nil {
			if _, rp := types.Unalias(sig.Recv().Type()).Underlying().(*types.Pointer); !rp {
				if _, vp := types.Unalias(recv.Typ).Underlying().(*types.Pointer); vp {
					args[0] = x.load(e.st, recv, false)
				}
			}
		}
		return x.applyExternPure(e, full, args, sig)
	}
	e.errf("unsupported call form")
	return Value{}
}

func exprText(ex Expr) string {
	switch ex := ex.(type) {
	case *EIdent:
		return ex.Name
	case *ESel:
		return exprText(ex.X) + "." + ex.Name
	case *EStr:
		return ex.V
	}
	return "?"
}

func methodFullName(t types.Type, name string) (string, *types.Signature) {
	if t == nil {
		return "", nil
	}
	ms := types.NewMethodSet(t)
	var selx *types.Selection
	for i := 0; i < ms.Len(); i++ {
		if ms.At(i).Obj().Name() == name {
			selx = ms.At(i)
		}
	}
	if selx == nil {
		// try pointer receiver
		ms = types.NewMethodSet(types.NewPointer(t))
		for i := 0; i < ms.Len(); i++ {
			if ms.At(i).Obj().Name() == name {
				selx = ms.At(i)
			}
		}
	}
	if selx == nil {
		return "", nil
	}
	fn := selx.Obj().(*types.Func)
	sig := fn.Type().(*types.Signature)
	recv := sig.Recv().Type()
	if _, ok := types.Unalias(recv).Underlying().(*types.Interface); ok {
		return "(" + types.TypeString(recv, nil) + ")." + name, sig
	}
	return "(" + types.TypeString(recv, nil) + ")." + name, sig
}

func (e *Env) findSpec(name string) *SpecFunc {
	if e.cf != nil && e.cf.PkgPath != "" {
		if sf, ok := e.x.P.Specs[e.cf.PkgPath+"."+name]; ok {
			return sf
		}
	}
	if sf, ok := e.x.P.Specs[name]; ok {
		return sf
	}
	return nil
}

func (e *Env) applySpec(sf *SpecFunc, argx []Expr) Value {
	x := e.x
	if len(argx) != len(sf.Params) {
		e.errf("spec %s: %d args expected", sf.Name, len(sf.Params))
	}
	scf := x.P.SpecFile[sf]
	var args []Value
	for i, a := range argx {
		v := e.eval(a)
		pt, err := x.P.ResolveType(sf.Params[i].Type, scf)
		if err != nil {
			e.errf("spec %s: %v", sf.Name, err)
		}
		if v.Sort == "Nil" {
			v, _ = e.unifyNil(v, Value{Sort: x.TM.Sort(pt), Typ: pt})
		}
		if v.Ptr == nil {
			v.Typ = pt
			if ps := x.TM.Sort(pt); ps != v.Sort {
				if ps == SBV && v.Sort == SInt {
					v = e.toBV(v)
				} else {
					e.errf("spec %s: argument %d has sort %s, expected %s", sf.Name, i, v.Sort, ps)
				}
			}
		}
		args = append(args, v)
	}
	if sf.Body == nil {
		// abstract: uninterpreted
		var sorts, terms []string
		for _, a := range args {
			sorts = append(sorts, x.TM.Sort(a.Typ))
			terms = append(terms, x.asTerm(a))
		}
		rt, err := x.P.ResolveType(sf.Ret, scf)
		if err != nil {
			e.errf("spec %s: %v", sf.Name, err)
		}
		f := x.D.Fun("spec."+sanitize(sf.Name), sorts, x.TM.Sort(rt))
		return x.mk(app(f, terms...), rt)
	}
	if e.depth > 40 {
		e.errf("spec recursion too deep in %s", sf.Name)
	}
	n := &Env{x: x, st: e.st, old: e.old, vars: map[string]Value{}, cf: scf, clause: e.clause, allocAtCall: e.allocAtCall, depth: e.depth + 1}
	for i, p := range sf.Params {
		n.vars[p.Name] = args[i]
	}
	// keep bound variables visible? No: spec functions are closed.
	return n.eval(sf.Body)
}

// lenOf computes len/cap of a value.
func (x *Exec) lenOf(st *State, v Value, isCap bool, e *Env) string {
	if v.Typ == nil {
		if v.Sort == SSlice {
			return app("slen", v.Term)
		}
		if v.Sort == SStr {
			return app("strlen", v.Term)
		}
		x.fail("len of untyped value")
	}
	switch u := types.Unalias(v.Typ).Underlying().(type) {
	case *types.Slice:
		if isCap {
			return app("scap", v.Term)
		}
		if strings.HasPrefix(v.Term, "(mk_slice ") {
			parts := splitSexp(v.Term[1 : len(v.Term)-1])
			if len(parts) == 4 {
				return parts[2]
			}
		}
		return app("slen", v.Term)
	case *types.Basic:
		return app("strlen", v.Term)
	case *types.Map:
		return x.mapLen(st, v)
	case *types.Array:
		return fmt.Sprintf("%d", u.Len())
	case *types.Pointer:
		if arr, ok := types.Unalias(u.Elem()).Underlying().(*types.Array); ok {
			return fmt.Sprintf("%d", arr.Len())
		}
	case *types.Chan:
		if isCap {
			if c, ok := st.Ghost["chancap:"+v.Term]; ok {
				return c
			}
		}
		if c, ok := st.Ghost["chanlen:"+v.Term]; ok {
			return c
		}
	}
	x.fail("len of %v", v.Typ)
	return ""
}

func (x *Exec) callCount(st *State, name string) string {
	if t, ok := st.Calls[name]; ok {
		return t
	}
	for k, t := range st.Calls {
		if strings.HasSuffix(k, "."+name) {
			return t
		}
	}
	return "0"
}

func valueHasField(v Value, name string) bool {
	if v.Tup != nil {
		return true
	}
	if v.Typ == nil {
		return false
	}
	t := types.Unalias(v.Typ)
	if pt, ok := t.Underlying().(*types.Pointer); ok {
		t = types.Unalias(pt.Elem())
	}
	if st, ok := t.Underlying().(*types.Struct); ok {
		i, _ := findField(st, name)
		return i >= 0
	}
	return false
}
