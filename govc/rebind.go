package main

import (
	"fmt"
	"regexp"
	"sort"
	"strings"

	"golang.org/x/tools/go/ssa"
)

// Loop invariants live in a separate comment file and name the function's locals. Renaming a local is a harmless edit
// that would leave an invariant unbound ("unknown identifier"). A loop invariant is only a witness for the proof: any
// binding of its free identifiers to locals under which every obligation of the function is discharged is a valid
// proof. rebind searches such a binding among the locals the contract does not mention, re-runs the generator with it
// and accepts it only if the whole function verifies; otherwise the original failure stands. Restricted to loop
// invariant / decreases clauses: anchored assertions and pre/postconditions state the property itself and are never
// re-bound.
var unknownIdentRe = regexp.MustCompile(`^contract ([^:]+):(\d+): unknown identifier (\w+) `)

func invariantLine(fc *FuncContract, line int) bool {
	for _, lc := range fc.Loops {
		for _, c := range lc.Invariants {
			if c.Line == line {
				return true
			}
		}
		for _, c := range lc.Decreases {
			if c.Line == line {
				return true
			}
		}
	}
	return false
}

var syntheticLocal = map[string]bool{"complit": true, "rangeindex": true, "rangeiter": true, "varargs": true, "slicelit": true, "arraylit": true, "new": true, "makeslice": true, "yield": true, "next": true}

func localNames(fn *ssa.Function, out map[string]bool) {
	for _, b := range fn.Blocks {
		for _, ins := range b.Instrs {
			if a, ok := ins.(*ssa.Alloc); ok && a.Comment != "" && !strings.ContainsAny(a.Comment, " .$") && !syntheticLocal[a.Comment] {
				out[a.Comment] = true
			}
		}
	}
	for _, af := range fn.AnonFuncs {
		localNames(af, out)
	}
}

func tryRebind(p *Prog, fn *ssa.Function, x *Exec, solver *Solver, alias map[string]string, depth int) *Exec {
	if x.FC == nil || len(x.Unsupported) != 1 || depth > 2 {
		return nil
	}
	m := unknownIdentRe.FindStringSubmatch(x.Unsupported[0])
	if m == nil {
		return nil
	}
	var line int
	fmt.Sscanf(m[2], "%d", &line)
	name := m[3]
	// invariants are proof witnesses: any verifying binding is a proof. Anchored assertions carry meaning through the
	// names they use: a binding is accepted for them only if it is the only candidate under which the function verifies
	needUnique := !invariantLine(x.FC, line)
	if needUnique {
		isAssert := false
		for _, a := range x.FC.Asserts {
			if a.C.Line == line {
				isAssert = true
			}
		}
		if !isAssert {
			return nil
		}
	}
	var found *Exec
	if !needUnique {
		// first try the proof without this invariant clause: an invariant is only a witness, and a clause about a local
		// that was removed (not renamed) is usually no longer needed
		drop := map[int]bool{line: true}
		for k := range x.DropInv {
			drop[k] = true
		}
		x2 := NewExec(p, fn)
		x2.Alias = alias
		x2.DropInv = drop
		x2.Run()
		if len(x2.Unsupported) == 1 && strings.Contains(x2.Unsupported[0], "unknown identifier") && len(drop) < 4 {
			if r := tryRebind(p, fn, x2, solver, alias, depth); r != nil {
				return r
			}
		} else if len(x2.Unsupported) == 0 {
			solver.SolveAll(x2.Obls, 16)
			ok := true
			for _, a := range aggregate(x2.Obls) {
				if !a.ok {
					ok = false
					break
				}
			}
			if ok {
				x2.Assumptions[fmt.Sprintf("note: %d loop invariant clause(s) of %s name a local that no longer exists and were left out; every obligation of the function is discharged without them", len(drop), x2.short)] = true
				return x2
			}
		}
	}
	mentioned := map[string]bool{}
	var srcs []string
	for _, cs := range [][]Clause{x.FC.Requires, x.FC.Ensures, x.FC.Panics, x.FC.Lemmas} {
		for _, c := range cs {
			srcs = append(srcs, c.Src)
		}
	}
	for _, lc := range x.FC.Loops {
		for _, c := range append(append([]Clause{}, lc.Invariants...), lc.Decreases...) {
			srcs = append(srcs, c.Src)
		}
		srcs = append(srcs, lc.Modifies...)
	}
	for _, a := range x.FC.Asserts {
		srcs = append(srcs, a.C.Src)
	}
	srcs = append(srcs, x.FC.ModSrc...)
	srcs = append(srcs, x.FC.Owns...)
	for _, w := range regexp.MustCompile(`\w+`).FindAllString(strings.Join(srcs, " "), -1) {
		mentioned[w] = true
	}
	locals := map[string]bool{}
	localNames(fn, locals)
	// helpers without a contract are executed in place (calls.go): their locals are in scope of the anchors too
	for _, g := range p.Funcs {
		if g.Pkg == fn.Pkg && g.Parent() == nil && g != fn && p.Contracts[g.String()] == nil && len(g.Blocks) > 0 {
			localNames(g, locals)
		}
	}
	if locals[name] {
		return nil // the identifier exists but is not in scope here: not a rename
	}
	var cands []string
	for n := range locals {
		used := false
		for _, v := range alias {
			if v == n {
				used = true
			}
		}
		if !mentioned[n] && !used {
			cands = append(cands, n)
		}
	}
	sort.Strings(cands)
	if len(cands) > 10 {
		return nil
	}
	for _, c := range cands {
		al := map[string]string{name: c}
		for k, v := range alias {
			al[k] = v
		}
		x2 := NewExec(p, fn)
		x2.Alias = al
		x2.DropInv = x.DropInv
		x2.Run()
		if len(x2.Unsupported) > 0 {
			if r := tryRebind(p, fn, x2, solver, al, depth+1); r != nil {
				return r
			}
			continue
		}
		solver.SolveAll(x2.Obls, 16)
		ok := true
		for _, a := range aggregate(x2.Obls) {
			if !a.ok {
				ok = false
				break
			}
		}
		if ok {
			var parts []string
			for k, v := range al {
				parts = append(parts, k+" -> "+v)
			}
			sort.Strings(parts)
			x2.Assumptions["contract of "+x2.short+" names locals that no longer exist; re-bound by search to renamed locals ("+strings.Join(parts, ", ")+"), accepted because every obligation of the function is discharged under this binding (for anchored assertions: and under no other candidate)"] = true
			if !needUnique {
				return x2
			}
			if found != nil {
				return nil // ambiguous: two different locals make the assertion provable
			}
			found = x2
		}
	}
	return found
}
