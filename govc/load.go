package main

import (
	"fmt"
	"go/ast"
	"go/parser"
	"go/token"
	"go/types"
	"os"
	"path/filepath"
	"sort"
	"strings"

	"golang.org/x/tools/go/packages"
	"golang.org/x/tools/go/ssa"
	"golang.org/x/tools/go/ssa/ssautil"
)

type Prog struct {
	Fset      *token.FileSet
	Pkgs      []*packages.Package
	SSA       *ssa.Program
	ModPath   string
	RepoDir   string
	Funcs     map[string]*ssa.Function // repo functions by full name
	Contracts map[string]*FuncContract // repo contracts by full function name
	Externs   map[string]*FuncContract // extern/interface contracts by full name
	Specs     map[string]*SpecFunc     // by "pkgpath.Name" and (shared) by "Name"
	Files     []*ContractFile
	FileOf    map[*FuncContract]*ContractFile
	SpecFile  map[*SpecFunc]*ContractFile
	TPkgs     map[string]*types.Package
	SPkgs     map[string]*ssa.Package
	BindErrs  []string
	MutGlobals map[*ssa.Global]bool
	ImmutableStructs map[string]bool
	WrittenFields map[string]bool
}

func LoadProg(repoDir string, specDirs []string) (*Prog, error) {
	cfg := &packages.Config{Mode: packages.LoadAllSyntax | packages.NeedModule, Dir: repoDir, BuildFlags: []string{"-tags=verif"},
		Env: append(os.Environ(), "GOFLAGS=-mod=mod", "GOPROXY=off", "GOSUMDB=off", "GOTOOLCHAIN=local")}
	pkgs, err := packages.Load(cfg, "./...")
	if err != nil {
		return nil, err
	}
	var errs []string
	packages.Visit(pkgs, nil, func(p *packages.Package) {
		for _, e := range p.Errors {
			errs = append(errs, e.Error())
		}
	})
	if len(errs) > 0 {
		return nil, fmt.Errorf("load errors: %s", strings.Join(errs, "; "))
	}
	sprog, _ := ssautil.AllPackages(pkgs, ssa.NaiveForm|ssa.GlobalDebug)
	sprog.Build()
	p := &Prog{Fset: pkgs[0].Fset, Pkgs: pkgs, SSA: sprog, RepoDir: repoDir,
		Funcs: map[string]*ssa.Function{}, Contracts: map[string]*FuncContract{}, Externs: map[string]*FuncContract{},
		Specs: map[string]*SpecFunc{}, FileOf: map[*FuncContract]*ContractFile{}, SpecFile: map[*SpecFunc]*ContractFile{},
		TPkgs: map[string]*types.Package{}, SPkgs: map[string]*ssa.Package{}, MutGlobals: map[*ssa.Global]bool{},
		ImmutableStructs: map[string]bool{}, WrittenFields: map[string]bool{}}
	if len(pkgs) > 0 && pkgs[0].Module != nil {
		p.ModPath = pkgs[0].Module.Path
	}
	packages.Visit(pkgs, nil, func(pk *packages.Package) {
		p.TPkgs[pk.PkgPath] = pk.Types
	})
	for _, sp := range sprog.AllPackages() {
		p.SPkgs[sp.Pkg.Path()] = sp
	}
	// repo functions
	for fn := range ssautil.AllFunctions(sprog) {
		if fn.Pkg == nil || !p.IsRepoPkg(fn.Pkg.Pkg.Path()) {
			continue
		}
		if fn.Synthetic != "" && fn.Name() != "init" {
			continue
		}
		p.Funcs[fn.String()] = fn
	}
	// contract files in repo packages
	for _, pk := range pkgs {
		if !p.IsRepoPkg(pk.PkgPath) {
			continue
		}
		dirs := map[string]bool{}
		for _, f := range pk.GoFiles {
			dirs[filepath.Dir(f)] = true
		}
		for d := range dirs {
			cfp := filepath.Join(d, "zz_verif_contracts.go")
			if _, err := os.Stat(cfp); err == nil {
				cf, err := ParseContractFile(cfp, pk.PkgPath)
				if err != nil {
					return nil, err
				}
				p.addFile(cf)
			}
		}
	}
	for _, sd := range specDirs {
		ms, _ := filepath.Glob(filepath.Join(sd, "*.gospec"))
		sort.Strings(ms)
		for _, m := range ms {
			cf, err := ParseContractFile(m, "")
			if err != nil {
				return nil, err
			}
			p.addFile(cf)
		}
	}
	p.scanMutation()
	return p, nil
}

func (p *Prog) IsRepoPkg(path string) bool {
	if p.ModPath == "" {
		return false
	}
	if !(path == p.ModPath || strings.HasPrefix(path, p.ModPath+"/")) {
		return false
	}
	if strings.HasSuffix(path, "/testhelper") || strings.Contains(path, "/signaturetest") {
		return false
	}
	return true
}

func (p *Prog) addFile(cf *ContractFile) {
	p.Files = append(p.Files, cf)
	for _, sf := range cf.Specs {
		p.SpecFile[sf] = cf
		if cf.PkgPath != "" {
			p.Specs[cf.PkgPath+"."+sf.Name] = sf
		} else {
			p.Specs[sf.Name] = sf
		}
	}
	for _, fc := range cf.Funcs {
		p.FileOf[fc] = cf
		full := p.fullFuncName(fc.Name, cf)
		if fc.Extern || fc.Iface {
			p.Externs[full] = fc
		} else {
			if _, ok := p.Funcs[full]; !ok {
				p.BindErrs = append(p.BindErrs, fmt.Sprintf("%s:%d: contract for unknown function %s", cf.Path, fc.Line, full))
				continue
			}
			p.Contracts[full] = fc
		}
	}
}

// fullFuncName expands a contract-file function name to ssa.Function.String() form.
func (p *Prog) fullFuncName(name string, cf *ContractFile) string {
	expandType := func(t string) string {
		// t like "envelope" or "x509.Certificate" or "crypto/x509.Certificate"
		if strings.Contains(t, "/") {
			return t
		}
		if i := strings.Index(t, "."); i >= 0 {
			if path, ok := cf.Imports[t[:i]]; ok {
				return path + t[i:]
			}
			return t
		}
		if cf.PkgPath != "" {
			return cf.PkgPath + "." + t
		}
		return t
	}
	if strings.HasPrefix(name, "(") {
		rp := strings.Index(name, ")")
		recv := name[1:rp]
		rest := name[rp+1:]
		star := ""
		if strings.HasPrefix(recv, "*") {
			star = "*"
			recv = recv[1:]
		}
		return "(" + star + expandType(recv) + ")" + rest
	}
	// plain or closure name (Func$1)
	if strings.Contains(name, "/") {
		return name
	}
	if i := strings.Index(name, "."); i >= 0 {
		if path, ok := cf.Imports[name[:i]]; ok {
			return path + name[i:]
		}
		if cf.PkgPath == "" {
			return name
		}
	}
	if cf.PkgPath != "" {
		return cf.PkgPath + "." + name
	}
	return name
}

// ShortName gives a position-free short name: module-relative package path + function.
func (p *Prog) ShortName(fn *ssa.Function) string {
	s := fn.String()
	s = strings.ReplaceAll(s, p.ModPath+"/", "")
	s = strings.ReplaceAll(s, p.ModPath+".", "root.")
	return s
}

// scanMutation records which struct fields and globals are ever stored to by repo code (outside init).
func (p *Prog) scanMutation() {
	var visit func(fn *ssa.Function)
	seen := map[*ssa.Function]bool{}
	visit = func(fn *ssa.Function) {
		if seen[fn] {
			return
		}
		seen[fn] = true
		for _, b := range fn.Blocks {
			for _, ins := range b.Instrs {
				switch ins := ins.(type) {
				case *ssa.Store:
					p.noteStore(ins.Addr, fn)
				case *ssa.MapUpdate:
				}
			}
		}
		for _, a := range fn.AnonFuncs {
			visit(a)
		}
	}
	for _, fn := range p.Funcs {
		visit(fn)
	}
}

func (p *Prog) noteStore(addr ssa.Value, fn *ssa.Function) {
	switch a := addr.(type) {
	case *ssa.Global:
		if fn.Name() != "init" {
			p.MutGlobals[a] = true
		}
	case *ssa.FieldAddr:
		pt := a.X.Type().Underlying().(*types.Pointer).Elem()
		st := pt.Underlying().(*types.Struct)
		p.WrittenFields[typeKey(pt)+"."+st.Field(a.Field).Name()] = true
		// nested: if a.X is itself a FieldAddr the outer field is written too
		p.noteStore(a.X, fn)
	case *ssa.IndexAddr:
		p.noteStore(a.X, fn)
	}
}

// ResolveType parses a type expression used in contracts.
func (p *Prog) ResolveType(texpr string, cf *ContractFile) (types.Type, error) {
	texpr = strings.TrimSpace(texpr)
	if texpr == "" || texpr == "int" {
		return types.Typ[types.Int], nil
	}
	e, err := parser.ParseExpr(texpr)
	if err != nil {
		return nil, fmt.Errorf("type %q: %v", texpr, err)
	}
	return p.typeFromAST(e, cf)
}

func (p *Prog) typeFromAST(e ast.Expr, cf *ContractFile) (types.Type, error) {
	switch e := e.(type) {
	case *ast.StarExpr:
		t, err := p.typeFromAST(e.X, cf)
		if err != nil {
			return nil, err
		}
		return types.NewPointer(t), nil
	case *ast.ArrayType:
		t, err := p.typeFromAST(e.Elt, cf)
		if err != nil {
			return nil, err
		}
		if e.Len == nil {
			return types.NewSlice(t), nil
		}
		return nil, fmt.Errorf("array types unsupported in contracts")
	case *ast.MapType:
		k, err := p.typeFromAST(e.Key, cf)
		if err != nil {
			return nil, err
		}
		v, err := p.typeFromAST(e.Value, cf)
		if err != nil {
			return nil, err
		}
		return types.NewMap(k, v), nil
	case *ast.InterfaceType:
		return types.NewInterfaceType(nil, nil), nil
	case *ast.ParenExpr:
		return p.typeFromAST(e.X, cf)
	case *ast.Ident:
		if o := types.Universe.Lookup(e.Name); o != nil {
			if tn, ok := o.(*types.TypeName); ok {
				return tn.Type(), nil
			}
		}
		if cf != nil && cf.PkgPath != "" {
			if tp := p.TPkgs[cf.PkgPath]; tp != nil {
				if o := tp.Scope().Lookup(e.Name); o != nil {
					if tn, ok := o.(*types.TypeName); ok {
						return tn.Type(), nil
					}
				}
			}
		}
		return nil, fmt.Errorf("unknown type %s", e.Name)
	case *ast.SelectorExpr:
		id, ok := e.X.(*ast.Ident)
		if !ok {
			return nil, fmt.Errorf("bad qualified type")
		}
		tp := p.lookupPkg(id.Name, cf)
		if tp == nil {
			return nil, fmt.Errorf("unknown package %s", id.Name)
		}
		o := tp.Scope().Lookup(e.Sel.Name)
		if o == nil {
			return nil, fmt.Errorf("unknown type %s.%s", id.Name, e.Sel.Name)
		}
		return o.Type(), nil
	}
	return nil, fmt.Errorf("unsupported type expression")
}

func (p *Prog) lookupPkg(name string, cf *ContractFile) *types.Package {
	if cf != nil {
		if path, ok := cf.Imports[name]; ok {
			return p.TPkgs[path]
		}
	}
	// fall back: unique package with that name among loaded packages, preferring repo and std
	var cands []*types.Package
	for _, tp := range p.TPkgs {
		if tp.Name() == name {
			cands = append(cands, tp)
		}
	}
	if len(cands) == 1 {
		return cands[0]
	}
	// prefer shortest path (std lib) for ambiguity such as x509
	sort.Slice(cands, func(i, j int) bool { return len(cands[i].Path()) < len(cands[j].Path()) })
	if len(cands) > 0 {
		return cands[0]
	}
	return nil
}

// RecursiveFuncs returns the repo functions that lie on a cycle of the static call graph (direct calls, closures
// created, deferred and go'd functions). Contracts give partial correctness only; a cycle would need a termination
// measure the contract language does not have, so it is reported instead of being silently accepted.
func (p *Prog) RecursiveFuncs() []string {
	edges := map[*ssa.Function][]*ssa.Function{}
	var all []*ssa.Function
	var visitFn func(fn *ssa.Function)
	seen := map[*ssa.Function]bool{}
	visitFn = func(fn *ssa.Function) {
		if seen[fn] {
			return
		}
		seen[fn] = true
		all = append(all, fn)
		for _, b := range fn.Blocks {
			for _, ins := range b.Instrs {
				if ci, ok := ins.(ssa.CallInstruction); ok {
					if c := ci.Common().StaticCallee(); c != nil && c.Pkg != nil && p.IsRepoPkg(c.Pkg.Pkg.Path()) {
						edges[fn] = append(edges[fn], c)
					}
				}
				if mc, ok := ins.(*ssa.MakeClosure); ok {
					if c, ok := mc.Fn.(*ssa.Function); ok {
						edges[fn] = append(edges[fn], c)
					}
				}
			}
		}
		for _, a := range fn.AnonFuncs {
			visitFn(a)
		}
	}
	for _, fn := range p.Funcs {
		visitFn(fn)
	}
	// a function is recursive iff it can reach itself
	var out []string
	for _, f := range all {
		stack := append([]*ssa.Function(nil), edges[f]...)
		vis := map[*ssa.Function]bool{}
		found := false
		for len(stack) > 0 && !found {
			g := stack[len(stack)-1]
			stack = stack[:len(stack)-1]
			if g == f {
				found = true
				break
			}
			if vis[g] {
				continue
			}
			vis[g] = true
			stack = append(stack, edges[g]...)
		}
		if found {
			out = append(out, p.ShortName(f))
		}
	}
	sort.Strings(out)
	return out
}
