package main

import (
	"math/big"
	"fmt"
	"go/constant"
	"go/token"
	"go/types"
	"sort"
	"strings"

	"golang.org/x/tools/go/ssa"
)

type Obligation struct {
	Name   string
	Kind   string
	Func   string
	Assume []string
	Goal   string
	Pos    string
	Trace  []string
	Smoke  bool // must NOT be provable
	Decls  *Decls
	// results
	Status string // unsat (discharged), sat, unknown, timeout
	Solver string
	Secs   float64
	Model  string
	Clause string
	Witness map[string]string // name -> term to evaluate in a model
	X      *Exec              // the function run that produced it (counterexample construction)
}

type Loop struct {
	Head    *ssa.BasicBlock
	Body    map[*ssa.BasicBlock]bool
	Ordinal int
	Key     string
	RangeIdx *ssa.Alloc // rangeindex cell if a range-over-slice loop
	RangeLen ssa.Value
	IsMapRange bool
}

type Exec struct {
	P     *Prog
	Fn    *ssa.Function
	FC    *FuncContract
	CF    *ContractFile
	D     *Decls
	TM    *TypeMap
	Obls  []*Obligation
	loops map[*ssa.Function]map[*ssa.BasicBlock]*Loop
	init  *State // entry state (for old())
	giInit map[*Clause]string // global invariants as assumed at entry
	Unroll int                // > 0: bounded unrolling instead of loop cutting (counterexample search only)
	giNorm *State
	giNormFor *State
	params map[string]Value
	nStates int
	MaxStates int
	labelCount map[string]int
	instrLabel map[ssa.Instruction]string
	frameSeq int
	Unsupported []string
	DefaultExterns map[string]bool
	UsedExterns map[string]bool
	UsedContracts map[string]bool
	strLits map[string]string
	short string
	retOrd map[*ssa.Return]int
	callOrd map[ssa.Instruction]string
	SafetyOnly bool
	curPos string
	smokeCount map[string]int
	DropInv map[int]bool      // contract lines of loop invariant clauses left out (they name a local that no longer exists and the function verifies without them, rebind.go)
	Alias   map[string]string // identifiers of loop invariants bound to renamed locals (rebind.go)
	Inlined map[string]bool
	epochSeq int
	bvSeq    int
	anchorHit map[int]bool
	fieldRefs map[string]Step // interior field-pointer encodings: function name -> field step
	Assumptions map[string]bool
}

func NewExec(p *Prog, fn *ssa.Function) *Exec {
	x := &Exec{P: p, Fn: fn, D: NewDecls(), loops: map[*ssa.Function]map[*ssa.BasicBlock]*Loop{},
		MaxStates: 60000, labelCount: map[string]int{}, instrLabel: map[ssa.Instruction]string{},
		DefaultExterns: map[string]bool{}, UsedExterns: map[string]bool{}, UsedContracts: map[string]bool{},
		strLits: map[string]string{}, retOrd: map[*ssa.Return]int{}, callOrd: map[ssa.Instruction]string{},
		smokeCount: map[string]int{}, Inlined: map[string]bool{}, Assumptions: map[string]bool{}, anchorHit: map[int]bool{}, fieldRefs: map[string]Step{}}
	x.TM = NewTypeMap(x.D)
	x.FC = p.Contracts[fn.String()]
	if x.FC != nil {
		x.CF = p.FileOf[x.FC]
	}
	x.short = p.ShortName(fn)
	return x
}

func (x *Exec) unsupported(format string, a ...any) {
	msg := fmt.Sprintf(format, a...)
	for _, u := range x.Unsupported {
		if u == msg {
			return
		}
	}
	x.Unsupported = append(x.Unsupported, msg)
}

// ---------- obligations

func (x *Exec) emit(st *State, kind, detail, goal string, clause string) {
	if goal == "true" {
		// trivially discharged; still count it
	}
	name := x.short + "#" + kind
	if detail != "" {
		name += "[" + detail + "]"
	}
	o := &Obligation{Name: name, Kind: kind, Func: x.short, Assume: append([]string(nil), st.PC...), Goal: goal,
		Trace: append([]string(nil), st.Trace...), Decls: x.D, Clause: clause, Pos: x.curPos, X: x}
	x.Obls = append(x.Obls, o)
}

func (x *Exec) emitSmoke(st *State, where string) {
	name := x.short + "#smoke[" + where + "]"
	if x.smokeCount[name] >= 6 {
		return
	}
	x.smokeCount[name]++
	o := &Obligation{Name: name, Kind: "smoke", Func: x.short, Assume: append([]string(nil), st.PC...), Goal: "false",
		Smoke: true, Decls: x.D, Pos: x.curPos}
	x.Obls = append(x.Obls, o)
}

// ---------- loops

func (x *Exec) loopsOf(fn *ssa.Function) map[*ssa.BasicBlock]*Loop {
	if m, ok := x.loops[fn]; ok {
		return m
	}
	m := map[*ssa.BasicBlock]*Loop{}
	// back edges: b -> h where h dominates b
	for _, b := range fn.Blocks {
		for _, h := range b.Succs {
			if h.Dominates(b) {
				l := m[h]
				if l == nil {
					l = &Loop{Head: h, Body: map[*ssa.BasicBlock]bool{h: true}}
					m[h] = l
				}
				// collect natural loop body
				var stack []*ssa.BasicBlock
				if !l.Body[b] {
					l.Body[b] = true
					stack = append(stack, b)
				}
				for len(stack) > 0 {
					n := stack[len(stack)-1]
					stack = stack[:len(stack)-1]
					for _, pr := range n.Preds {
						if !l.Body[pr] {
							l.Body[pr] = true
							stack = append(stack, pr)
						}
					}
				}
			}
		}
	}
	var heads []*ssa.BasicBlock
	for h := range m {
		heads = append(heads, h)
	}
	sort.Slice(heads, func(i, j int) bool { return heads[i].Index < heads[j].Index })
	for i, h := range heads {
		l := m[h]
		l.Ordinal = i
		l.Key = fmt.Sprintf("%d", i)
		// detect range-over-slice loop: header starts with load of rangeindex alloc
		if len(h.Instrs) > 0 {
			if u, ok := h.Instrs[0].(*ssa.UnOp); ok && u.Op == token.MUL {
				if a, ok := u.X.(*ssa.Alloc); ok && a.Comment == "rangeindex" {
					l.RangeIdx = a
					if iff, ok := h.Instrs[len(h.Instrs)-1].(*ssa.If); ok {
						if bo, ok := iff.Cond.(*ssa.BinOp); ok && bo.Op == token.LSS {
							l.RangeLen = bo.Y
						}
					}
				}
			}
			for _, ins := range h.Instrs {
				if _, ok := ins.(*ssa.Next); ok {
					l.IsMapRange = true
				}
			}
		}
	}
	x.loops[fn] = m
	return m
}

// loopKey returns the contract key of loop l in function fn relative to the function under verification.
func (x *Exec) loopKey(fn *ssa.Function, l *Loop) string {
	if fn == x.Fn {
		return l.Key
	}
	// closure: name suffix after the top function name, e.g. "$1#0"
	suffix := strings.TrimPrefix(fn.Name(), x.Fn.Name())
	return suffix + "#" + l.Key
}

// ---------- running

func (x *Exec) Run() {
	defer func() {
		if r := recover(); r != nil {
			if ue, ok := r.(unsupportedErr); ok {
				x.unsupported("%s", string(ue))
				return
			}
			panic(r)
		}
	}()
	st := x.initialState()
	if st == nil {
		return
	}
	x.emitSmoke(st, "entry")
	x.runBlock(st, x.Fn.Blocks[0], nil)
	x.typeFacts()
	// contract items that never bound to the code are failures, not silently skipped
	if x.FC != nil {
		for ai, a := range x.FC.Asserts {
			if !x.anchorHit[ai] {
				x.unsupported("anchor %q of %s does not bind to any program point", a.Anchor, x.short)
			}
		}
		used := map[string]bool{}
		for fn2, m := range x.loops {
			for _, l := range m {
				used[x.loopKey(fn2, l)] = true
			}
		}
		for k := range x.FC.Loops {
			if !used[k] {
				// a loop invariant is a proof witness, not a claim: when the loop it was written for is gone (replaced by a
				// library call, moved into a helper) the remaining obligations decide alone; recorded, not failed
				x.Assumptions[fmt.Sprintf("note: loop contract %q of %s binds to no loop in the current code (ignored; the function's other obligations are unaffected)", k, x.short)] = true
			}
		}
	}
}

// typeFacts: ground facts about the dynamic type tags known to this run, for the abstract predicates
// ExternalDyn (declared outside the repository), NoUnwrap (no Unwrap/Is method), EmptyStructType.
func (x *Exec) typeFacts() {
	for _, t := range x.TM.tagList {
		id := x.TM.Tag(t)
		repo := false
		var named *types.Named
		tt := types.Unalias(t)
		if p, ok := tt.(*types.Pointer); ok {
			tt = types.Unalias(p.Elem())
		}
		if n, ok := tt.(*types.Named); ok {
			named = n
			if n.Obj().Pkg() != nil && strings.HasPrefix(n.Obj().Pkg().Path(), x.P.ModPath) {
				repo = true
			}
		}
		if x.D.Has("f:spec.ExternalDyn") {
			if repo {
				x.D.Axiom(fmt.Sprintf("(not (spec.ExternalDyn %d))", id))
			}
		}
		if x.D.Has("f:spec.NoUnwrap") && named != nil {
			ms := types.NewMethodSet(t)
			has := false
			for i := 0; i < ms.Len(); i++ {
				if n := ms.At(i).Obj().Name(); n == "Unwrap" || n == "Is" || n == "As" {
					has = true
				}
			}
			if !has {
				x.D.Axiom(fmt.Sprintf("(spec.NoUnwrap %d)", id))
			} else {
				x.D.Axiom(fmt.Sprintf("(not (spec.NoUnwrap %d))", id))
			}
		}
		if x.D.Has("f:spec.NotAnError") {
			errT := types.Universe.Lookup("error").Type().Underlying().(*types.Interface)
			if !types.Implements(t, errT) {
				x.D.Axiom(fmt.Sprintf("(spec.NotAnError %d)", id))
			}
		}
		if x.D.Has("f:hashable") {
			if types.Comparable(t) {
				if _, isI := types.Unalias(t).Underlying().(*types.Interface); !isI {
					x.D.Axiom(fmt.Sprintf("(hashable %d)", id))
				}
			} else {
				x.D.Axiom(fmt.Sprintf("(not (hashable %d))", id))
			}
		}
		if x.D.Has("f:spec.EmptyStructType") {
			if st, ok := types.Unalias(t).Underlying().(*types.Struct); ok && st.NumFields() == 0 {
				x.D.Axiom(fmt.Sprintf("(spec.EmptyStructType %d)", id))
			} else {
				x.D.Axiom(fmt.Sprintf("(not (spec.EmptyStructType %d))", id))
			}
		}
	}
}

type unsupportedErr string

func (x *Exec) fail(format string, a ...any) {
	panic(unsupportedErr(fmt.Sprintf(format, a...)))
}

func (x *Exec) newFrame(st *State, fn *ssa.Function) *Frame {
	x.frameSeq++
	f := &Frame{ID: x.frameSeq, Fn: fn, Regs: map[ssa.Value]Value{}, Locals: map[*ssa.Alloc]Value{}}
	st.Frames = append(st.Frames, f)
	return f
}

func (x *Exec) initialState() *State {
	st := &State{Heap: map[string]string{}, pcSet: map[string]bool{}, Calls: map[string]string{}, Ghost: map[string]string{},
		LoopIt: map[*ssa.BasicBlock]string{}, Visits: map[*ssa.BasicBlock]int{}}
	st.AllocBase = x.D.Const("A0", SInt)
	st.Assume("(> A0 0)")
	f := x.newFrame(st, x.Fn)
	x.params = map[string]Value{}
	for _, p := range x.Fn.Params {
		v := x.symbolicInput("p."+p.Name(), p.Type(), st)
		f.Regs[p] = v
		x.params[p.Name()] = v
	}
	for _, fv := range x.Fn.FreeVars {
		v := x.symbolicInput("fv."+fv.Name(), fv.Type(), st)
		f.Regs[fv] = v
	}
	// the package initialiser starts from zeroed package-level variables
	if x.Fn.Name() == "init" && x.Fn.Pkg != nil {
		var names []string
		for n, m := range x.Fn.Pkg.Members {
			if _, ok := m.(*ssa.Global); ok && !strings.HasPrefix(n, "init$") {
				names = append(names, n)
			}
		}
		sort.Strings(names)
		for _, n := range names {
			g := x.Fn.Pkg.Members[n].(*ssa.Global)
			el := g.Type().(*types.Pointer).Elem()
			v := x.load(st, x.globalPtr(g), false)
			if v.Term != "" && v.Ptr == nil {
				st.Assume(Eq(v.Term, x.TM.Zero(el)))
			}
		}
	}
	// snapshot for old()
	x.init = st.clone()
	// axioms and global invariants of the contract's package
	x.assumeBackground(st)
	// lemmas: closed formulas over the entry heap, proved from the background alone (before the preconditions are
	// assumed, so that they hold in every context); they are obligations only and are never assumed
	if x.FC != nil {
		for _, c := range x.FC.Lemmas {
			env := x.entryEnv(st)
			x.curPos = fmt.Sprintf("%s:%d", c.File, c.Line)
			x.emit(st, "lemma", c.Label, x.evalBool(env, c.E, c), c.Src)
			// vacuity: the hypothesis of "forall v :: H ==> C" must be satisfiable together with the background
			if q, ok := c.E.(*EQuant); ok && q.Forall {
				if imp, ok := q.Body.(*EBinary); ok && imp.Op == "==>" {
					st2 := st.clone()
					st2.Assume(x.evalBool(x.entryEnv(st2), &EQuant{Forall: false, Vars: q.Vars, Body: imp.X}, c))
					x.emitSmoke(st2, "lemma hypothesis "+c.Label)
				}
			}
		}
		if len(x.FC.Lemmas) > 0 {
			x.emitSmoke(st, "lemma background")
		}
	}
	// preconditions
	if x.FC != nil {
		env := x.entryEnv(st)
		for _, c := range x.FC.Requires {
			v := x.evalBool(env, c.E, c)
			st.Assume(v)
		}
	}
	x.init.PC = append([]string(nil), st.PC...)
	return st
}

// symbolicInput creates a symbolic value of Go type t with its type invariants assumed.
func (x *Exec) symbolicInput(name string, t types.Type, st *State) Value {
	sort := x.TM.Sort(t)
	term := x.D.Const(sanitize(name), sort)
	v := Value{Term: term, Typ: t, Sort: sort}
	x.assumeTypeInv(st, v, true)
	return v
}

// assumeTypeInv adds the representation invariants of a value read from the pre-state or the heap.
func (x *Exec) assumeTypeInv(st *State, v Value, pre bool) {
	if v.Ptr != nil || v.Clo != nil || v.Typ == nil {
		return
	}
	bound := st.AllocTerm()
	switch u := types.Unalias(v.Typ).Underlying().(type) {
	case *types.Pointer, *types.Map, *types.Chan:
		// interior pointers (elemref/fieldref) are negative, objects positive, nil is 0
		st.Assume(fmt.Sprintf("(< %s %s)", v.Term, bound))
	case *types.Slice:
		st.Assume(fmt.Sprintf("(and (>= (sbase %s) 0) (< (sbase %s) %s) (>= (slen %s) 0) (>= (scap %s) (slen %s)) (<= (scap %s) %s) (=> (= (sbase %s) 0) (= (scap %s) 0)))",
			v.Term, v.Term, bound, v.Term, v.Term, v.Term, v.Term, maxInt64, v.Term, v.Term))
	case *types.Basic:
		if lo, hi, ok := intBounds(v.Typ); ok && v.Sort == SInt {
			st.Assume(fmt.Sprintf("(and (<= %s %s) (<= %s %s))", smtInt(lo), v.Term, v.Term, smtInt(hi)))
		} else if u.Info()&types.IsUnsigned != 0 {
			st.Assume(fmt.Sprintf("(>= %s 0)", v.Term))
		}
		if u.Info()&types.IsString != 0 {
			x.strFacts(st, v.Term)
		}
	case *types.Struct:
		if isTime(v.Typ) || x.TM.IsOpaqueStruct(v.Typ) {
			return
		}
		s := x.TM.Sort(v.Typ)
		if u.NumFields() > 8 {
			return
		}
		for i := 0; i < u.NumFields(); i++ {
			ft := u.Field(i).Type()
			switch types.Unalias(ft).Underlying().(type) {
			case *types.Pointer, *types.Map, *types.Chan, *types.Slice:
				fv := Value{Term: app(x.TM.FieldSel(s, u, i), v.Term), Typ: ft, Sort: x.TM.Sort(ft)}
				x.assumeTypeInv(st, fv, pre)
			}
		}
	}
}

func (x *Exec) strFacts(st *State, term string) {
	st.Assume(fmt.Sprintf("(and (>= (strlen %s) 0) (<= (strlen %s) %s) (= (= (strlen %s) 0) (= %s str_empty)))", term, term, maxInt64, term, term))
}

func (x *Exec) strLit(s string) string {
	if s == "" {
		return "str_empty"
	}
	if n, ok := x.strLits[s]; ok {
		return n
	}
	n := fmt.Sprintf("str.lit%d", len(x.strLits))
	x.strLits[s] = n
	x.D.Const(n, SStr)
	x.D.Axiom(fmt.Sprintf("(= (strlen %s) %d)", n, len(s)))
	return n
}

// ---------- block execution

func (x *Exec) budget() bool {
	x.nStates++
	if x.nStates > x.MaxStates {
		x.unsupported("path budget exceeded (%d states)", x.MaxStates)
		return false
	}
	return true
}

func (x *Exec) runBlock(st *State, b *ssa.BasicBlock, pred *ssa.BasicBlock) {
	if !x.budget() {
		return
	}
	fr := st.top()
	fn := fr.Fn
	if l := x.loopsOf(fn)[b]; l != nil {
		if x.Unroll > 0 {
			// counterexample search: loops are unrolled a bounded number of times instead of being cut at invariants
			// (paths that would need more iterations are simply not explored)
			st.Visits[b]++
			if st.Visits[b] > x.Unroll+1 {
				return
			}
			for h, il := range x.loopsOf(fn) {
				if h != b && l.Body[h] && il != l {
					st.Visits[h] = 0 // a fresh run of every inner loop per outer iteration
				}
			}
		} else {
			if pred != nil && l.Body[pred] {
				x.loopBackEdge(st, fn, l)
				return
			}
			if !x.loopEntry(st, fn, l) {
				return
			}
		}
	}
	if pred != nil && x.FC != nil && len(x.FC.Asserts) > 0 {
		// leaving a loop normally (condition false or break, not return/panic): anchor "after loop K"
		for _, l := range x.loopsOf(fn) {
			if l.Body[pred] && !l.Body[b] && b != l.Head && (strings.HasPrefix(b.Comment, "for.done") || strings.HasPrefix(b.Comment, "range") && strings.HasSuffix(b.Comment, ".done")) {
				x.anchors(st, "after loop "+x.loopKey(fn, l), nil)
			}
		}
	}
	st.Trace = append(st.Trace, fmt.Sprintf("%s:%d", fn.Name(), b.Index))
	x.runInstrs(st, b, 0, pred)
}

func (x *Exec) runInstrs(st *State, b *ssa.BasicBlock, from int, pred *ssa.BasicBlock) {
	fr := st.top()
	for i := from; i < len(b.Instrs); i++ {
		ins := b.Instrs[i]
		if p := ins.Pos(); p.IsValid() {
			pp := x.P.Fset.Position(p)
			x.curPos = fmt.Sprintf("%s:%d", strings.TrimPrefix(pp.Filename, x.P.RepoDir+"/"), pp.Line)
		}
		switch ins := ins.(type) {
		case *ssa.If:
			c := x.val(st, ins.Cond)
			t, f := b.Succs[0], b.Succs[1]
			if c.Term == "true" {
				x.runBlock(st, t, b)
				return
			}
			if c.Term == "false" {
				x.runBlock(st, f, b)
				return
			}
			st2 := st.clone()
			st.Assume(c.Term)
			x.runBlock(st, t, b)
			st2.Assume(Not(c.Term))
			x.runBlock(st2, f, b)
			return
		case *ssa.Jump:
			x.runBlock(st, b.Succs[0], b)
			return
		case *ssa.Return:
			var rs []Value
			for _, r := range ins.Results {
				rs = append(rs, x.val(st, r))
			}
			x.doReturn(st, ins, rs)
			return
		case *ssa.Panic:
			pv := x.val(st, ins.X)
			x.doPanic(st, pv, x.labelFor(ins, "panic", "explicit"))
			return
		case *ssa.Phi:
			// select the edge by predecessor
			idx := -1
			for k, p := range b.Preds {
				if p == pred {
					idx = k
				}
			}
			if idx < 0 {
				x.fail("phi without known predecessor in %s", fr.Fn.Name())
			}
			fr.Regs[ins] = x.val(st, ins.Edges[idx])
		case *ssa.Call:
			// calls may fork (inlined closures); continuation-passing
			cont := func(st *State, res Value) {
				st.top().Regs[ins] = res
				if lab, ok := x.callOrd[ins]; ok && x.FC != nil && len(x.FC.Asserts) > 0 {
					env := x.localEnv(st)
					env.vars["result"] = res
					x.anchors(st, "after call "+lab, env)
				}
				x.runInstrs(st, b, i+1, pred)
			}
			x.doCall(st, ins, &ins.Call, cont)
			return
		case *ssa.Go:
			cont := func(st *State, res Value) {
				x.runInstrs(st, b, i+1, pred)
			}
			x.doGo(st, ins, cont)
			return
		case *ssa.RunDefers:
			cont := func(st *State) {
				x.runInstrs(st, b, i+1, pred)
			}
			x.runDefers(st, cont)
			return
		case *ssa.Select:
			x.doSelect(st, ins, func(st *State) { x.runInstrs(st, b, i+1, pred) })
			return
		default:
			x.step(st, ins)
		}
	}
}

// labelFor gives a stable label for an instruction-derived obligation: kind[detail#k].
func (x *Exec) labelFor(ins ssa.Instruction, kind, detail string) string {
	if l, ok := x.instrLabel[ins]; ok {
		return l
	}
	key := kind + "|" + detail + "|" + ins.Parent().Name()
	k := x.labelCount[key]
	x.labelCount[key] = k + 1
	d := detail
	if ins.Parent() != x.Fn {
		d = strings.TrimPrefix(ins.Parent().Name(), x.Fn.Name()) + ":" + d
	}
	l := fmt.Sprintf("%s#%d", d, k)
	x.instrLabel[ins] = l
	return l
}

// describe gives a readable description of an SSA value (for obligation names).
func describe(v ssa.Value) string {
	switch v := v.(type) {
	case *ssa.UnOp:
		if v.Op == token.MUL {
			return describe(v.X)
		}
	case *ssa.Alloc:
		if v.Comment != "" {
			return v.Comment
		}
	case *ssa.FieldAddr:
		st := v.X.Type().Underlying().(*types.Pointer).Elem().Underlying().(*types.Struct)
		return describe(v.X) + "." + st.Field(v.Field).Name()
	case *ssa.Field:
		st := v.X.Type().Underlying().(*types.Struct)
		return describe(v.X) + "." + st.Field(v.Field).Name()
	case *ssa.IndexAddr:
		return describe(v.X) + "[]"
	case *ssa.Parameter:
		return v.Name()
	case *ssa.FreeVar:
		return v.Name()
	case *ssa.Global:
		return v.Name()
	case *ssa.Call:
		if c := v.Call.StaticCallee(); c != nil {
			return c.Name() + "()"
		}
		if v.Call.IsInvoke() {
			return v.Call.Method.Name() + "()"
		}
	case *ssa.Extract:
		return describe(v.Tuple) + fmt.Sprintf(".%d", v.Index)
	case *ssa.Const:
		return "const"
	case *ssa.Lookup:
		return describe(v.X) + "[k]"
	case *ssa.TypeAssert:
		return describe(v.X) + ".(T)"
	case *ssa.Slice:
		return describe(v.X) + "[:]"
	case *ssa.MakeInterface:
		return describe(v.X)
	}
	return v.Name()
}

// ---------- values

func (x *Exec) val(st *State, v ssa.Value) Value {
	switch v := v.(type) {
	case *ssa.Const:
		return x.constVal(st, v)
	case *ssa.Global:
		return x.globalPtr(v)
	case *ssa.Function:
		return Value{Clo: &Closure{Fn: v}, Typ: v.Type(), Sort: SInt, Term: x.funcRef(v)}
	case *ssa.Builtin:
		return Value{Typ: v.Type(), Term: "0", Sort: SInt}
	}
	// search frames from top (closures refer to own frame only)
	fr := st.top()
	if r, ok := fr.Regs[v]; ok {
		return r
	}
	x.fail("value %s (%T) not defined in frame %s", v.Name(), v, fr.Fn.Name())
	return Value{}
}

func (x *Exec) funcRef(fn *ssa.Function) string {
	name := "fn." + sanitize(fn.String())
	c := x.D.Const(name, SInt)
	x.D.Axiom(fmt.Sprintf("(< %s 0)", c))
	return c
}

func (x *Exec) globalPtr(g *ssa.Global) Value {
	name := "g." + sanitize(g.Pkg.Pkg.Path()+"."+g.Name())
	elem := g.Type().(*types.Pointer).Elem()
	ref := x.D.Const(name, SInt)
	x.D.Axiom(fmt.Sprintf("(< %s 0)", ref))
	// unexported error sentinels of the repository: private objects no dependency can return
	inOwnInit := strings.HasPrefix(x.Fn.Name(), "init") && x.Fn.Pkg == g.Pkg // the initialiser is what sets it: still zero at entry
	if types.TypeString(elem, nil) == "error" && !g.Object().Exported() && x.P.IsRepoPkg(g.Pkg.Pkg.Path()) && !x.P.MutGlobals[g] && !inOwnInit {
		key := x.TM.Key(elem)
		arr := x.D.Const(x.TM.CellArray(key)+"@0", fmt.Sprintf("(Array Int %s)", SIface))
		f := x.D.Fun("spec.RepoPrivateSentinel", []string{SIface}, SBool)
		x.D.Axiom(app(f, Select(arr, ref)))
		x.D.Axiom(Not(Eq(app("itag", Select(arr, ref)), "0")))
	}
	return Value{Typ: g.Type(), Sort: SInt, Ptr: &Pointer{Base: ref, Elem: elem}, Term: ref}
}

func (x *Exec) constVal(st *State, c *ssa.Const) Value {
	t := c.Type()
	sort := x.TM.Sort(t)
	if c.Value == nil {
		return Value{Term: x.TM.Zero(t), Typ: t, Sort: sort}
	}
	switch c.Value.Kind() {
	case constant.Bool:
		if constant.BoolVal(c.Value) {
			return Value{Term: "true", Typ: t, Sort: SBool}
		}
		return Value{Term: "false", Typ: t, Sort: SBool}
	case constant.Int:
		if sort == SBV {
			n, _ := constant.Uint64Val(c.Value)
			return Value{Term: fmt.Sprintf("#x%08x", uint32(n)), Typ: t, Sort: SBV}
		}
		s := c.Value.ExactString()
		if strings.HasPrefix(s, "-") {
			s = "(- " + s[1:] + ")"
		}
		return Value{Term: s, Typ: t, Sort: SInt}
	case constant.String:
		return Value{Term: x.strLit(constant.StringVal(c.Value)), Typ: t, Sort: SStr}
	case constant.Float:
		f, _ := constant.Float64Val(c.Value)
		return Value{Term: fmt.Sprintf("%f", f), Typ: t, Sort: "Real"}
	}
	x.fail("unsupported constant %v", c)
	return Value{}
}

// ptrTerm converts a pointer value to a Ref term.
func (x *Exec) ptrTerm(v Value) string {
	if v.Ptr == nil {
		return v.Term
	}
	p := v.Ptr
	if p.Cell != nil {
		// address of an engine-local cell escaping into SMT: give it an abstract distinct negative ref
		x.fail("address of non-escaping local %s used as a value", p.Cell.Comment)
	}
	if len(p.Steps) == 0 {
		return p.Base
	}
	// interior pointer: uninterpreted injective encoding
	t := p.Base
	for _, s := range p.Steps {
		if s.IsIndex {
			t = x.elemRef(t, s.Index)
		} else {
			name := "fieldref." + x.TM.structName(s.Struct)[2:] + "." + sanitize(s.St.Field(s.Field).Name())
			f := x.D.Fun(name, []string{SInt}, SInt)
			x.fieldRefs[name] = s
			x.D.Axiom(fmt.Sprintf("(forall ((b!q Int)) (! (< (%s b!q) 0) :pattern ((%s b!q))))", name, name))
			t = app(f, t)
		}
	}
	return t
}

// asTerm returns the SMT term for any first-order value.
func (x *Exec) asTerm(v Value) string {
	if v.Ptr != nil {
		return x.ptrTerm(v)
	}
	if v.Clo != nil {
		if v.Term != "" {
			return v.Term
		}
		return x.funcRef(v.Clo.Fn)
	}
	if v.Tup != nil {
		x.fail("tuple used as a term")
	}
	return v.Term
}

// ---------- heap access

func (x *Exec) heapArr(st *State, name, idxSort, valSort string) string {
	if t, ok := st.Heap[name]; ok {
		return t
	}
	c := x.D.Const(fmt.Sprintf("%s@%d", name, st.Epoch), fmt.Sprintf("(Array %s %s)", idxSort, valSort))
	st.Heap[name] = c
	return c
}

func (x *Exec) elemArr(st *State, key string) string {
	return x.heapArr(st, x.TM.ElemArray(key), SInt, fmt.Sprintf("(Array Int %s)", ksort(key)))
}

// valueIn wraps a term read from memory: pointers to structs etc. stay plain terms.
func (x *Exec) mk(term string, t types.Type) Value {
	return Value{Term: term, Typ: t, Sort: x.TM.Sort(t)}
}

// followSteps selects inside a value term according to steps.
func (x *Exec) followSteps(term string, t types.Type, steps []Step) (string, types.Type) {
	for _, s := range steps {
		if s.IsIndex {
			arr := types.Unalias(t).Underlying().(*types.Array)
			term = Select(term, s.Index)
			t = arr.Elem()
		} else {
			st := types.Unalias(t).Underlying().(*types.Struct)
			term = app(x.TM.FieldSel(x.TM.Sort(t), st, s.Field), term)
			t = st.Field(s.Field).Type()
		}
	}
	return term, t
}

// updateSteps returns term with the sub-value at steps replaced by nv.
func (x *Exec) updateSteps(term string, t types.Type, steps []Step, nv string) string {
	if len(steps) == 0 {
		return nv
	}
	s := steps[0]
	if s.IsIndex {
		arr := types.Unalias(t).Underlying().(*types.Array)
		inner := x.updateSteps(Select(term, s.Index), arr.Elem(), steps[1:], nv)
		return Store(term, s.Index, inner)
	}
	st := types.Unalias(t).Underlying().(*types.Struct)
	sortName := x.TM.Sort(t)
	var fs []string
	for i := 0; i < st.NumFields(); i++ {
		sel := app(x.TM.FieldSel(sortName, st, i), term)
		if i == s.Field {
			fs = append(fs, x.updateSteps(sel, st.Field(i).Type(), steps[1:], nv))
		} else {
			fs = append(fs, sel)
		}
	}
	return app("mk."+sortName, fs...)
}

// decodePtr rebuilds the engine pointer of an interior field pointer that travelled as a term
// (e.g. &s.f boxed into an interface and unboxed again).
func (x *Exec) decodePtr(pv Value) Value {
	if pv.Ptr != nil || !strings.HasPrefix(pv.Term, "(fieldref.") {
		return pv
	}
	parts := splitSexp(pv.Term[1 : len(pv.Term)-1])
	if len(parts) != 2 {
		return pv
	}
	step, ok := x.fieldRefs[parts[0]]
	if !ok {
		return pv
	}
	inner := x.decodePtr(Value{Term: parts[1], Sort: SInt})
	np := &Pointer{Base: parts[1], Elem: step.St.Field(step.Field).Type()}
	if inner.Ptr != nil {
		np.Base = inner.Ptr.Base
		np.Steps = append(np.Steps, inner.Ptr.Steps...)
	}
	np.Steps = append(np.Steps, step)
	pv.Ptr = np
	return pv
}

func (x *Exec) load(st *State, pv Value, assume bool) Value {
	pv = x.decodePtr(pv)
	p := pv.Ptr
	if p == nil {
		// plain Ref term: pointer to pointee type
		pt, ok := types.Unalias(pv.Typ).Underlying().(*types.Pointer)
		if !ok {
			x.fail("load through non-pointer %v", pv.Typ)
		}
		p = &Pointer{Base: pv.Term, Elem: pt.Elem()}
	}
	var out Value
	if p.Cell != nil {
		fr := st.frameByID(p.Frame)
		if fr == nil {
			x.fail("dangling local cell %s", p.Cell.Comment)
		}
		cv, ok := fr.Locals[p.Cell]
		if !ok {
			x.fail("local cell %s not initialised", p.Cell.Comment)
		}
		if len(p.Steps) == 0 {
			return cv
		}
		cellT := p.Cell.Type().(*types.Pointer).Elem()
		term, t := x.followSteps(cv.Term, cellT, p.Steps)
		return x.mk(term, t)
	}
	if len(p.Steps) == 0 {
		out = x.loadObject(st, p.Base, p.Elem)
	} else {
		s0 := p.Steps[0]
		var term string
		var t types.Type
		if s0.IsIndex {
			es := p.ElemBaseSort
			inner := Select(x.elemArr(st, es), p.Base)
			term = Select(inner, s0.Index)
			t = x.elemTypeAfterIndex(p)
		} else {
			name, vs := x.TM.FieldArray(s0.Struct, s0.St, s0.Field)
			term = Select(x.heapArr(st, name, SInt, vs), p.Base)
			t = s0.St.Field(s0.Field).Type()
		}
		term, t = x.followSteps(term, t, p.Steps[1:])
		out = x.mk(term, t)
	}
	if assume {
		if len(out.Term) > 160 && strings.HasPrefix(out.Term, "(select ") && out.Ptr == nil && out.Tup == nil && !strings.Contains(out.Term, "!b") && !strings.Contains(out.Term, "!q") {
			n := x.D.Fresh("v", out.Sort)
			st.Assume(Eq(n, out.Term))
			out.Term = n
		}
		x.assumeTypeInv(st, out, false)
	}
	return out
}

// elemTypeAfterIndex: Go type of the element for the first index step of p.
func (x *Exec) elemTypeAfterIndex(p *Pointer) types.Type {
	return p.Steps[0].Struct // for index steps we stash the element type in Struct
}

func (x *Exec) loadObject(st *State, base string, t types.Type) Value {
	if isTime(t) || x.TM.IsOpaqueStruct(t) {
		s := x.TM.Key(t)
		return x.mk(Select(x.heapArr(st, x.TM.CellArray(s), SInt, ksort(s)), base), t)
	}
	switch u := types.Unalias(t).Underlying().(type) {
	case *types.Struct:
		s := x.TM.Sort(t)
		if u.NumFields() == 0 {
			return x.mk("mk."+s, t)
		}
		var fs []string
		for i := 0; i < u.NumFields(); i++ {
			name, vs := x.TM.FieldArray(t, u, i)
			fs = append(fs, Select(x.heapArr(st, name, SInt, vs), base))
		}
		return x.mk(app("mk."+s, fs...), t)
	case *types.Array:
		if x.exploded(u.Elem()) {
			x.fail("whole-array load of struct array")
		}
		es := x.TM.Key(u.Elem())
		return x.mk(Select(x.elemArr(st, es), base), t)
	default:
		s := x.TM.Key(t)
		return x.mk(Select(x.heapArr(st, x.TM.CellArray(s), SInt, ksort(s)), base), t)
	}
}

func (x *Exec) storeObject(st *State, base string, t types.Type, v string) {
	if isTime(t) || x.TM.IsOpaqueStruct(t) {
		s := x.TM.Key(t)
		name := x.TM.CellArray(s)
		st.Heap[name] = Store(x.heapArr(st, name, SInt, ksort(s)), base, v)
		return
	}
	switch u := types.Unalias(t).Underlying().(type) {
	case *types.Struct:
		s := x.TM.Sort(t)
		for i := 0; i < u.NumFields(); i++ {
			name, vs := x.TM.FieldArray(t, u, i)
			st.Heap[name] = Store(x.heapArr(st, name, SInt, vs), base, app(x.TM.FieldSel(s, u, i), v))
		}
	case *types.Array:
		if x.exploded(u.Elem()) {
			// only zero-initialisation of a fresh struct array is supported: done by choosing (fresh cells)
			if u.Len() > 64 {
				x.fail("large struct array")
			}
			for i := int64(0); i < u.Len(); i++ {
				x.storeObject(st, x.elemRef(base, fmt.Sprintf("%d", i)), u.Elem(), x.TM.Zero(u.Elem()))
			}
			return
		}
		es := x.TM.Key(u.Elem())
		name := x.TM.ElemArray(es)
		st.Heap[name] = Store(x.elemArr(st, es), base, v)
	default:
		s := x.TM.Key(t)
		name := x.TM.CellArray(s)
		st.Heap[name] = Store(x.heapArr(st, name, SInt, ksort(s)), base, v)
	}
}

func (x *Exec) store(st *State, pv Value, v Value, ins ssa.Instruction) {
	pv = x.decodePtr(pv)
	p := pv.Ptr
	if p == nil {
		pt, ok := types.Unalias(pv.Typ).Underlying().(*types.Pointer)
		if !ok {
			x.fail("store through non-pointer")
		}
		p = &Pointer{Base: pv.Term, Elem: pt.Elem()}
	}
	if p.Cell != nil {
		fr := st.frameByID(p.Frame)
		if fr == nil {
			x.fail("dangling local cell")
		}
		if len(p.Steps) == 0 {
			fr.Locals[p.Cell] = v
			return
		}
		cellT := p.Cell.Type().(*types.Pointer).Elem()
		cv := fr.Locals[p.Cell]
		nt := x.updateSteps(cv.Term, cellT, p.Steps, x.asTerm(v))
		fr.Locals[p.Cell] = x.mk(nt, cellT)
		return
	}
	// heap store: frame check
	x.checkWrite(st, p, ins)
	vt := x.asTerm(v)
	if len(p.Steps) == 0 {
		x.storeObject(st, p.Base, p.Elem, vt)
		return
	}
	s0 := p.Steps[0]
	if s0.IsIndex {
		es := p.ElemBaseSort
		name := x.TM.ElemArray(es)
		arr := x.elemArr(st, es)
		inner := Select(arr, p.Base)
		et := x.elemTypeAfterIndex(p)
		nv := x.updateSteps(Select(inner, s0.Index), et, p.Steps[1:], vt)
		st.Heap[name] = Store(arr, p.Base, Store(inner, s0.Index, nv))
		return
	}
	name, vs := x.TM.FieldArray(s0.Struct, s0.St, s0.Field)
	arr := x.heapArr(st, name, SInt, vs)
	nv := x.updateSteps(Select(arr, p.Base), s0.St.Field(s0.Field).Type(), p.Steps[1:], vt)
	st.Heap[name] = Store(arr, p.Base, nv)
}

// alloc returns a fresh reference.
func (x *Exec) alloc(st *State) string {
	r := st.AllocTerm()
	st.AllocOff++
	return r
}

// ---------- single instruction step (non-control)

func (x *Exec) step(st *State, ins ssa.Instruction) {
	fr := st.top()
	switch ins := ins.(type) {
	case *ssa.DebugRef:
		return
	case *ssa.Alloc:
		elem := ins.Type().(*types.Pointer).Elem()
		if !ins.Heap {
			fr.Locals[ins] = x.mk(x.TM.Zero(elem), elem)
			fr.Regs[ins] = Value{Typ: ins.Type(), Sort: SInt, Ptr: &Pointer{Cell: ins, Frame: fr.ID, Elem: elem}}
			return
		}
		r := x.alloc(st)
		x.storeObject(st, r, elem, x.TM.Zero(elem))
		fr.Regs[ins] = Value{Typ: ins.Type(), Sort: SInt, Term: r, Ptr: &Pointer{Base: r, Elem: elem}}
	case *ssa.Store:
		a := x.val(st, ins.Addr)
		v := x.val(st, ins.Val)
		x.store(st, a, v, ins)
	case *ssa.UnOp:
		fr.Regs[ins] = x.unop(st, ins)
	case *ssa.BinOp:
		fr.Regs[ins] = x.binop(st, ins, ins.Op, x.val(st, ins.X), x.val(st, ins.Y), ins.Type())
	case *ssa.FieldAddr:
		b := x.val(st, ins.X)
		pt := types.Unalias(ins.X.Type()).Underlying().(*types.Pointer).Elem()
		stt := types.Unalias(pt).Underlying().(*types.Struct)
		step := Step{Field: ins.Field, Struct: pt, St: stt}
		ft := stt.Field(ins.Field).Type()
		var np *Pointer
		if b.Ptr != nil {
			np = &Pointer{Cell: b.Ptr.Cell, Frame: b.Ptr.Frame, Base: b.Ptr.Base, Steps: append(append([]Step(nil), b.Ptr.Steps...), step), Elem: ft, ElemBaseSort: b.Ptr.ElemBaseSort}
		} else {
			x.emit(st, "nil", x.labelFor(ins, "nil", describe(ins)), Not(Eq(b.Term, "0")), "")
			st.Assume(Not(Eq(b.Term, "0")))
			np = &Pointer{Base: b.Term, Steps: []Step{step}, Elem: ft}
		}
		fr.Regs[ins] = Value{Typ: ins.Type(), Sort: SInt, Ptr: np}
	case *ssa.Field:
		b := x.val(st, ins.X)
		stt := types.Unalias(ins.X.Type()).Underlying().(*types.Struct)
		s := x.TM.Sort(ins.X.Type())
		fr.Regs[ins] = x.mk(app(x.TM.FieldSel(s, stt, ins.Field), b.Term), stt.Field(ins.Field).Type())
	case *ssa.IndexAddr:
		fr.Regs[ins] = x.indexAddr(st, ins)
	case *ssa.Index:
		b := x.val(st, ins.X)
		i := x.val(st, ins.Index)
		switch u := types.Unalias(ins.X.Type()).Underlying().(type) {
		case *types.Array:
			x.emit(st, "bounds", x.labelFor(ins, "bounds", describe(ins.X)), fmt.Sprintf("(and (>= %s 0) (< %s %d))", i.Term, i.Term, u.Len()), "")
			fr.Regs[ins] = x.mk(Select(b.Term, i.Term), u.Elem())
		default:
			// string index
			x.emit(st, "bounds", x.labelFor(ins, "bounds", describe(ins.X)), fmt.Sprintf("(and (>= %s 0) (< %s (strlen %s)))", i.Term, i.Term, b.Term), "")
			f := x.D.Fun("str.at", []string{SStr, SInt}, SInt)
			fr.Regs[ins] = x.mk(app(f, b.Term, i.Term), ins.Type())
		}
	case *ssa.Slice:
		fr.Regs[ins] = x.sliceOp(st, ins)
	case *ssa.MakeInterface:
		v := x.val(st, ins.X)
		fr.Regs[ins] = x.makeIface(v, ins.X.Type(), ins.Type())
	case *ssa.ChangeInterface:
		v := x.val(st, ins.X)
		v.Typ = ins.Type()
		fr.Regs[ins] = v
	case *ssa.ChangeType:
		v := x.val(st, ins.X)
		ns := x.TM.Sort(ins.Type())
		if v.Ptr == nil && v.Clo == nil && ns != v.Sort {
			// e.g. named struct conversions with identical underlying types: unsupported unless same sort
			x.fail("ChangeType between different sorts %s -> %s", v.Sort, ns)
		}
		v.Typ = ins.Type()
		fr.Regs[ins] = v
	case *ssa.Convert:
		fr.Regs[ins] = x.convert(st, x.val(st, ins.X), ins.X.Type(), ins.Type())
	case *ssa.TypeAssert:
		fr.Regs[ins] = x.typeAssert(st, ins)
	case *ssa.Extract:
		t := x.val(st, ins.Tuple)
		if t.Tup == nil || ins.Index >= len(t.Tup) {
			x.fail("extract from non-tuple")
		}
		fr.Regs[ins] = t.Tup[ins.Index]
	case *ssa.MakeSlice:
		l := x.val(st, ins.Len)
		c := x.val(st, ins.Cap)
		et := ins.Type().Underlying().(*types.Slice).Elem()
		es := x.TM.Key(et)
		x.emit(st, "makeslice", x.labelFor(ins, "makeslice", "len"), fmt.Sprintf("(and (>= %s 0) (<= %s %s))", l.Term, l.Term, c.Term), "")
		r := x.alloc(st)
		if x.exploded(et) {
			x.zeroStructElems(st, r, et)
		} else {
			name := x.TM.ElemArray(es)
			arr := x.elemArr(st, es)
			st.Heap[name] = Store(arr, r, x.TM.ConstArray(ksort(es), x.TM.Zero(et)))
		}
		fr.Regs[ins] = x.mk(fmt.Sprintf("(mk_slice %s %s %s)", r, l.Term, c.Term), ins.Type())
	case *ssa.MakeMap:
		mt := ins.Type().Underlying().(*types.Map)
		ks, vs := x.TM.Sort(mt.Key()), x.TM.Sort(mt.Elem())
		r := x.alloc(st)
		hn := x.TM.MapHas(ks, vs)
		st.Heap[hn] = Store(x.heapArr(st, hn, SInt, fmt.Sprintf("(Array %s Bool)", ks)), r, fmt.Sprintf("((as const (Array %s Bool)) false)", ks))
		vn := x.TM.MapVal(ks, vs)
		x.heapArr(st, vn, SInt, fmt.Sprintf("(Array %s %s)", ks, vs))
		fr.Regs[ins] = x.mk(r, ins.Type())
	case *ssa.MapUpdate:
		x.mapUpdate(st, ins)
	case *ssa.Lookup:
		fr.Regs[ins] = x.lookup(st, ins)
	case *ssa.MakeClosure:
		fn := ins.Fn.(*ssa.Function)
		var bs []Value
		for _, b := range ins.Bindings {
			bs = append(bs, x.val(st, b))
		}
		fr.Regs[ins] = Value{Clo: &Closure{Fn: fn, Bindings: bs}, Typ: ins.Type(), Sort: SInt}
	case *ssa.Range:
		fr.Regs[ins] = x.rangeInit(st, ins)
	case *ssa.Next:
		fr.Regs[ins] = x.rangeNext(st, ins)
	case *ssa.Defer:
		var args []Value
		for _, a := range ins.Call.Args {
			args = append(args, x.val(st, a))
		}
		var fv Value
		if !ins.Call.IsInvoke() {
			if _, ok := ins.Call.Value.(*ssa.Builtin); !ok {
				fv = x.val(st, ins.Call.Value)
			}
		} else {
			fv = x.val(st, ins.Call.Value)
		}
		fr.Defers = append(fr.Defers, deferred{call: ins, fn: fv, args: args})
	case *ssa.MakeChan:
		sz := x.val(st, ins.Size)
		r := x.alloc(st)
		st.Ghost["chancap:"+r] = sz.Term
		st.Ghost["chanlen:"+r] = "0"
		st.Ghost["chanclosed:"+r] = "false"
		fr.Regs[ins] = x.mk(r, ins.Type())
	case *ssa.Send:
		x.doSend(st, ins)
	default:
		x.fail("unsupported instruction %T in %s", ins, fr.Fn.Name())
	}
}

func (x *Exec) unop(st *State, ins *ssa.UnOp) Value {
	v := x.val(st, ins.X)
	switch ins.Op {
	case token.MUL:
		if g, ok := ins.X.(*ssa.Global); ok && g.Name() == "init$guard" {
			// the initialiser is verified for its first (only effective) run
			return boolV("false")
		}
		if v.Ptr == nil {
			x.emit(st, "nil", x.labelFor(ins, "nil", "*"+describe(ins.X)), Not(Eq(v.Term, "0")), "")
			st.Assume(Not(Eq(v.Term, "0")))
		}
		// constant (never stored) globals: read from init snapshot array
		return x.load(st, v, true)
	case token.NOT:
		return Value{Term: Not(v.Term), Typ: ins.Type(), Sort: SBool}
	case token.SUB:
		return x.checkedArith(st, ins, "neg", Value{Term: app("-", v.Term), Typ: ins.Type(), Sort: v.Sort})
	case token.ARROW:
		return x.doRecv(st, ins, v)
	case token.XOR:
		if v.Sort == SBV {
			return Value{Term: app("bvnot", v.Term), Typ: ins.Type(), Sort: SBV}
		}
	}
	x.fail("unsupported unary op %s", ins.Op)
	return Value{}
}

func (x *Exec) binop(st *State, ins ssa.Instruction, op token.Token, a, b Value, rt types.Type) Value {
	rs := x.TM.Sort(rt)
	mkb := func(t string) Value { return Value{Term: t, Typ: rt, Sort: SBool} }
	switch op {
	case token.EQL, token.NEQ:
		eq := x.equal(st, a, b, ins)
		if op == token.NEQ {
			eq = Not(eq)
		}
		return mkb(eq)
	}
	if a.Sort == SBV || b.Sort == SBV {
		at, bt := a.Term, b.Term
		switch op {
		case token.AND:
			return Value{Term: app("bvand", at, bt), Typ: rt, Sort: SBV}
		case token.OR:
			return Value{Term: app("bvor", at, bt), Typ: rt, Sort: SBV}
		case token.XOR:
			return Value{Term: app("bvxor", at, bt), Typ: rt, Sort: SBV}
		case token.AND_NOT:
			return Value{Term: app("bvand", at, app("bvnot", bt)), Typ: rt, Sort: SBV}
		}
		x.fail("unsupported bit-vector op %s", op)
	}
	if a.Sort == SStr {
		switch op {
		case token.ADD:
			f := x.D.Fun("str.concat", []string{SStr, SStr}, SStr)
			t := app(f, a.Term, b.Term)
			x.D.Axiom(fmt.Sprintf("(= (strlen %s) (+ (strlen %s) (strlen %s)))", t, a.Term, b.Term))
			return Value{Term: t, Typ: rt, Sort: SStr}
		case token.LSS, token.LEQ, token.GTR, token.GEQ:
			f := x.D.Fun("str.lt", []string{SStr, SStr}, SBool)
			switch op {
			case token.LSS:
				return mkb(app(f, a.Term, b.Term))
			case token.GTR:
				return mkb(app(f, b.Term, a.Term))
			case token.LEQ:
				return mkb(Not(app(f, b.Term, a.Term)))
			default:
				return mkb(Not(app(f, a.Term, b.Term)))
			}
		}
	}
	at, bt := a.Term, b.Term
	switch op {
	case token.ADD:
		return x.checkedArith(st, ins, "+", Value{Term: app("+", at, bt), Typ: rt, Sort: rs})
	case token.SUB:
		return x.checkedArith(st, ins, "-", Value{Term: app("-", at, bt), Typ: rt, Sort: rs})
	case token.MUL:
		return x.checkedArith(st, ins, "*", Value{Term: app("*", at, bt), Typ: rt, Sort: rs})
	case token.QUO:
		x.emit(st, "div0", x.labelFor(ins, "div0", ""), Not(Eq(bt, "0")), "")
		// Go truncated division
		f := x.D.Fun("go.div", []string{SInt, SInt}, SInt)
		return Value{Term: app(f, at, bt), Typ: rt, Sort: rs}
	case token.REM:
		x.emit(st, "div0", x.labelFor(ins, "div0", ""), Not(Eq(bt, "0")), "")
		f := x.D.Fun("go.rem", []string{SInt, SInt}, SInt)
		return Value{Term: app(f, at, bt), Typ: rt, Sort: rs}
	case token.LSS:
		return mkb(app("<", at, bt))
	case token.LEQ:
		return mkb(app("<=", at, bt))
	case token.GTR:
		return mkb(app(">", at, bt))
	case token.GEQ:
		return mkb(app(">=", at, bt))
	case token.SHL:
		// shift by constant: multiply
		if n, ok := smallConst(bt); ok {
			return x.checkedArith(st, ins, "<<", Value{Term: app("*", at, fmt.Sprintf("%d", int64(1)<<uint(n))), Typ: rt, Sort: rs})
		}
	case token.SHR:
		if n, ok := smallConst(bt); ok {
			return Value{Term: app("div", at, fmt.Sprintf("%d", int64(1)<<uint(n))), Typ: rt, Sort: rs}
		}
	case token.AND, token.OR, token.XOR, token.AND_NOT:
		f := x.D.Fun("int."+map[token.Token]string{token.AND: "and", token.OR: "or", token.XOR: "xor", token.AND_NOT: "andnot"}[op], []string{SInt, SInt}, SInt)
		return Value{Term: app(f, at, bt), Typ: rt, Sort: rs}
	}
	x.fail("unsupported binary op %s", op)
	return Value{}
}

const maxInt64 = "9223372036854775807"

// intBounds gives the value range of a Go integer type (int, uint and uintptr are 64 bits wide: the module is
// verified for 64-bit platforms).
func intBounds(t types.Type) (lo, hi *big.Int, ok bool) {
	b, isB := types.Unalias(t).Underlying().(*types.Basic)
	if !isB || b.Info()&types.IsInteger == 0 {
		return nil, nil, false
	}
	bits := uint(64)
	switch b.Kind() {
	case types.Int8, types.Uint8:
		bits = 8
	case types.Int16, types.Uint16:
		bits = 16
	case types.Int32, types.Uint32:
		bits = 32
	case types.UntypedInt, types.UntypedRune:
		return nil, nil, false
	}
	one := big.NewInt(1)
	if b.Info()&types.IsUnsigned != 0 {
		return big.NewInt(0), new(big.Int).Sub(new(big.Int).Lsh(one, bits), one), true
	}
	h := new(big.Int).Lsh(one, bits-1)
	return new(big.Int).Neg(h), new(big.Int).Sub(h, one), true
}

func smtInt(n *big.Int) string {
	if n.Sign() < 0 {
		return "(- " + new(big.Int).Neg(n).String() + ")"
	}
	return n.String()
}

// checkedArith: the model computes with mathematical integers; the obligation that the result of every +, -, *, <<
// and unary - lies in the range of its Go type makes that model exact (Go wraps silently, it does not panic, so a
// failure here means "the proof's arithmetic is not the machine's", reported like any other failed obligation).
func (x *Exec) checkedArith(st *State, ins ssa.Instruction, op string, r Value) Value {
	lo, hi, ok := intBounds(r.Typ)
	if !ok || r.Sort != SInt || ins == nil {
		return r
	}
	in := fmt.Sprintf("(and (<= %s %s) (<= %s %s))", smtInt(lo), r.Term, r.Term, smtInt(hi))
	x.emit(st, "overflow", x.labelFor(ins, "overflow", op), in, "")
	st.Assume(in)
	return r
}

func smallConst(t string) (int, bool) {
	var n int
	if _, err := fmt.Sscanf(t, "%d", &n); err == nil && fmt.Sprintf("%d", n) == t && n >= 0 && n < 62 {
		return n, true
	}
	return 0, false
}

// equal builds the equality of two values of the same Go type.
func (x *Exec) equal(st *State, a, b Value, ins ssa.Instruction) string {
	if ins != nil && a.Typ != nil && isTime(a.Typ) && a.Term != b.Term {
		// Go's == on time.Time compares wall clock, monotonic reading and *Location, not the instant: equal structs
		// denote the same instant, but the same instant may be held by unequal structs (other zone, monotonic part)
		r := x.D.Fresh("timeStructEq", SBool)
		st.Assume(Implies(r, Eq(a.Term, b.Term)))
		x.Assumptions["== on time.Time values is under-determined: implies the same instant, not implied by it"] = true
		return r
	}
	if a.Ptr != nil || b.Ptr != nil {
		// engine pointers: compare structurally when possible
		if a.Ptr != nil && b.Ptr != nil {
			if a.Ptr.Cell != nil || b.Ptr.Cell != nil {
				if a.Ptr.Cell == b.Ptr.Cell && a.Ptr.Frame == b.Ptr.Frame && len(a.Ptr.Steps) == 0 && len(b.Ptr.Steps) == 0 {
					return "true"
				}
				return "false"
			}
			return Eq(x.ptrTerm(a), x.ptrTerm(b))
		}
		p, o := a, b
		if p.Ptr == nil {
			p, o = b, a
		}
		if p.Ptr.Cell != nil || len(p.Ptr.Steps) > 0 {
			// address of a local or interior pointer vs. a term: equal only if other is that; nil compare is false
			if o.Term == "0" {
				return "false"
			}
			if p.Ptr.Cell != nil {
				return "false"
			}
		}
		return Eq(x.ptrTerm(p), o.Term)
	}
	if a.Sort == SIface || b.Sort == SIface {
		// nil comparison by tag; general comparison requires comparable dynamic types
		if isNilIface(a.Term) {
			return Eq(app("itag", b.Term), "0")
		}
		if isNilIface(b.Term) {
			return Eq(app("itag", a.Term), "0")
		}
		return Eq(a.Term, b.Term)
	}
	if a.Sort == SSlice {
		// Go only allows comparison with nil; contracts may compare slice headers (identity)
		if isNilSlice(a.Term) {
			return Eq(app("sbase", b.Term), "0")
		}
		if isNilSlice(b.Term) {
			return Eq(app("sbase", a.Term), "0")
		}
		return Eq(a.Term, b.Term)
	}
	return Eq(a.Term, b.Term)
}

func isNilIface(t string) bool { return t == "(mk_iface 0 any_nil)" }
func isNilSlice(t string) bool { return t == "(mk_slice 0 0 0)" }

func (x *Exec) indexAddr(st *State, ins *ssa.IndexAddr) Value {
	b := x.val(st, ins.X)
	i := x.val(st, ins.Index)
	switch u := types.Unalias(ins.X.Type()).Underlying().(type) {
	case *types.Slice:
		es := x.TM.Key(u.Elem())
		x.emit(st, "bounds", x.labelFor(ins, "bounds", describe(ins.X)), fmt.Sprintf("(and (>= %s 0) (< %s (slen %s)))", i.Term, i.Term, b.Term), "")
		st.Assume(fmt.Sprintf("(and (>= %s 0) (< %s (slen %s)))", i.Term, i.Term, b.Term))
		idx := i.Term
		if x.exploded(u.Elem()) {
			r := x.elemRef(app("sbase", b.Term), idx)
			return Value{Typ: ins.Type(), Sort: SInt, Term: r, Ptr: &Pointer{Base: r, Elem: u.Elem()}}
		}
		return Value{Typ: ins.Type(), Sort: SInt, Ptr: &Pointer{Base: app("sbase", b.Term), Steps: []Step{{IsIndex: true, Index: idx, Struct: u.Elem()}}, Elem: u.Elem(), ElemBaseSort: es}}
	case *types.Pointer:
		arr := types.Unalias(u.Elem()).Underlying().(*types.Array)
		es := x.TM.Key(arr.Elem())
		x.emit(st, "bounds", x.labelFor(ins, "bounds", describe(ins.X)), fmt.Sprintf("(and (>= %s 0) (< %s %d))", i.Term, i.Term, arr.Len()), "")
		if b.Ptr != nil && (b.Ptr.Cell != nil || len(b.Ptr.Steps) > 0) {
			np := &Pointer{Cell: b.Ptr.Cell, Frame: b.Ptr.Frame, Base: b.Ptr.Base, Steps: append(append([]Step(nil), b.Ptr.Steps...), Step{IsIndex: true, Index: i.Term, Struct: arr.Elem()}), Elem: arr.Elem(), ElemBaseSort: b.Ptr.ElemBaseSort}
			return Value{Typ: ins.Type(), Sort: SInt, Ptr: np}
		}
		base := x.ptrTerm(b)
		if x.exploded(arr.Elem()) {
			r := x.elemRef(base, i.Term)
			return Value{Typ: ins.Type(), Sort: SInt, Term: r, Ptr: &Pointer{Base: r, Elem: arr.Elem()}}
		}
		return Value{Typ: ins.Type(), Sort: SInt, Ptr: &Pointer{Base: base, Steps: []Step{{IsIndex: true, Index: i.Term, Struct: arr.Elem()}}, Elem: arr.Elem(), ElemBaseSort: es}}
	}
	x.fail("unsupported IndexAddr on %v", ins.X.Type())
	return Value{}
}

func simplifyAdd(off, idx, sl string) string { return idx }

func splitSexp(s string) []string {
	var out []string
	depth := 0
	start := -1
	for i, r := range s {
		switch {
		case r == '(':
			if depth == 0 && start < 0 {
				start = i
			}
			depth++
		case r == ')':
			depth--
			if depth == 0 {
				out = append(out, s[start:i+1])
				start = -1
			}
		case r == ' ':
			if depth == 0 && start >= 0 {
				out = append(out, s[start:i])
				start = -1
			}
		default:
			if start < 0 {
				start = i
			}
		}
	}
	if start >= 0 {
		out = append(out, s[start:])
	}
	return out
}

func (x *Exec) sliceOp(st *State, ins *ssa.Slice) Value {
	b := x.val(st, ins.X)
	var lo, hi string
	if ins.Low != nil {
		lo = x.val(st, ins.Low).Term
	} else {
		lo = "0"
	}
	switch u := types.Unalias(ins.X.Type()).Underlying().(type) {
	case *types.Slice:
		if ins.High != nil {
			hi = x.val(st, ins.High).Term
		} else {
			hi = app("slen", b.Term)
		}
		x.emit(st, "bounds", x.labelFor(ins, "slice", describe(ins.X)), fmt.Sprintf("(and (<= 0 %s) (<= %s %s) (<= %s (scap %s)))", lo, lo, hi, hi, b.Term), "")
		st.Assume(fmt.Sprintf("(and (<= 0 %s) (<= %s %s) (<= %s (scap %s)))", lo, lo, hi, hi, b.Term))
		if lo == "0" {
			return x.mk(fmt.Sprintf("(mk_slice (sbase %s) %s (scap %s))", b.Term, hi, b.Term), ins.Type())
		}
		return x.subSliceCopy(st, app("sbase", b.Term), lo, hi, app("scap", b.Term), u.Elem(), ins.Type())
	case *types.Pointer:
		arr := types.Unalias(u.Elem()).Underlying().(*types.Array)
		n := fmt.Sprintf("%d", arr.Len())
		if ins.High != nil {
			hi = x.val(st, ins.High).Term
		} else {
			hi = n
		}
		x.emit(st, "bounds", x.labelFor(ins, "slice", describe(ins.X)), fmt.Sprintf("(and (<= 0 %s) (<= %s %s) (<= %s %s))", lo, lo, hi, hi, n), "")
		base := x.ptrTerm(b)
		if lo == "0" {
			return x.mk(fmt.Sprintf("(mk_slice %s %s %s)", base, hi, n), ins.Type())
		}
		return x.subSliceCopy(st, base, lo, hi, n, arr.Elem(), ins.Type())
	case *types.Basic:
		// string slicing
		if ins.High != nil {
			hi = x.val(st, ins.High).Term
		} else {
			hi = app("strlen", b.Term)
		}
		x.emit(st, "bounds", x.labelFor(ins, "slice", describe(ins.X)), fmt.Sprintf("(and (<= 0 %s) (<= %s %s) (<= %s (strlen %s)))", lo, lo, hi, hi, b.Term), "")
		f := x.D.Fun("str.substr", []string{SStr, SInt, SInt}, SStr)
		t := app(f, b.Term, lo, hi)
		x.D.Axiom(fmt.Sprintf("(= (strlen %s) (- %s %s))", t, hi, lo))
		return x.mk(t, ins.Type())
	}
	x.fail("unsupported Slice on %v", ins.X.Type())
	return Value{}
}

func (x *Exec) makeIface(v Value, from types.Type, to types.Type) Value {
	if _, ok := types.Unalias(from).Underlying().(*types.Interface); ok {
		v.Typ = to
		return v
	}
	tag := x.TM.Tag(from)
	sort := x.TM.Sort(from)
	term := x.asTerm(v)
	return Value{Term: fmt.Sprintf("(mk_iface %d %s)", tag, x.TM.Box(sort, term)), Typ: to, Sort: SIface}
}

func (x *Exec) implementsPred(st *State, tagTerm string, iface types.Type) string {
	name := "impl." + sanitize(types.TypeString(iface, nil))
	f := x.D.Fun(name, []string{SInt}, SBool)
	return app(f, tagTerm)
}

func (x *Exec) typeAssert(st *State, ins *ssa.TypeAssert) Value {
	v := x.val(st, ins.X)
	to := ins.AssertedType
	var ok, val string
	var rv Value
	if _, isI := types.Unalias(to).Underlying().(*types.Interface); isI {
		ok = And(Not(Eq(app("itag", v.Term), "0")), x.implementsPred(st, app("itag", v.Term), to))
		// any non-nil value implements the empty interface
		if types.Unalias(to).Underlying().(*types.Interface).NumMethods() == 0 {
			ok = Not(Eq(app("itag", v.Term), "0"))
		}
		rv = Value{Term: v.Term, Typ: to, Sort: SIface}
		if ins.CommaOk {
			rv.Term = Ite(ok, v.Term, x.TM.Zero(to))
		}
	} else {
		tag := x.TM.Tag(to)
		sort := x.TM.Sort(to)
		ok = Eq(app("itag", v.Term), fmt.Sprintf("%d", tag))
		val = x.TM.Unbox(sort, app("ival", v.Term))
		// a value whose dynamic type is T is the boxing of its unboxing
		st.Assume(Implies(ok, Eq(x.TM.Box(sort, val), app("ival", v.Term))))
		if ins.CommaOk {
			val = Ite(ok, val, x.TM.Zero(to))
		}
		rv = x.mk(val, to)
	}
	if ins.CommaOk {
		okv := Value{Term: ok, Typ: types.Typ[types.Bool], Sort: SBool}
		// type invariant of the extracted value
		st2 := st
		x.assumeTypeInvCond(st2, rv, ok)
		return Value{Tup: []Value{rv, okv}}
	}
	x.emit(st, "typeassert", x.labelFor(ins, "typeassert", describe(ins.X)), ok, "")
	st.Assume(ok)
	x.assumeTypeInvCond(st, rv, "true")
	return rv
}

// assumeTypeInvCond assumes pointer/slice well-formedness for values unboxed from interfaces.
func (x *Exec) assumeTypeInvCond(st *State, v Value, cond string) {
	if v.Typ == nil {
		return
	}
	switch types.Unalias(v.Typ).Underlying().(type) {
	case *types.Pointer, *types.Map, *types.Chan:
		st.Assume(Implies(cond, fmt.Sprintf("(< %s %s)", v.Term, st.AllocTerm())))
	case *types.Slice:
		st.Assume(Implies(cond, fmt.Sprintf("(and (>= (sbase %s) 0) (< (sbase %s) %s) (>= (slen %s) 0) (>= (scap %s) (slen %s)))", v.Term, v.Term, st.AllocTerm(), v.Term, v.Term, v.Term)))
	case *types.Basic:
		if v.Sort == SStr {
			st.Assume(fmt.Sprintf("(and (>= (strlen %s) 0) (= (= (strlen %s) 0) (= %s str_empty)))", v.Term, v.Term, v.Term))
		}
	}
}

func (x *Exec) convert(st *State, v Value, from, to types.Type) Value {
	fs, ts := x.TM.Sort(from), x.TM.Sort(to)
	fu, tu := types.Unalias(from).Underlying(), types.Unalias(to).Underlying()
	if fs == ts {
		// string <-> string; integer <-> integer with Go's exact semantics: the value is kept when the target type
		// can represent every value of the source type, and wraps modulo 2^N otherwise
		if flo, fhi, ok := intBounds(from); ok && fs == SInt {
			if tlo, thi, ok := intBounds(to); ok && (flo.Cmp(tlo) < 0 || fhi.Cmp(thi) > 0) {
				size := new(big.Int).Add(new(big.Int).Sub(thi, tlo), big.NewInt(1))
				// ((v - tlo) mod 2^N) + tlo
				t := fmt.Sprintf("(+ (mod (- %s %s) %s) %s)", v.Term, smtInt(tlo), smtInt(size), smtInt(tlo))
				return x.mk(t, to)
			}
		}
		v.Typ = to
		return v
	}
	// []byte <-> string
	if _, ok := fu.(*types.Slice); ok && ts == SStr {
		f := x.D.Fun("bytes.tostr", []string{"(Array Int Int)", SInt}, SStr)
		inner := Select(x.elemArr(st, x.TM.Key(types.Typ[types.Uint8])), app("sbase", v.Term))
		t := app(f, inner, app("slen", v.Term))
		st.Assume(fmt.Sprintf("(= (strlen %s) (slen %s))", t, v.Term))
		x.strFacts(st, t)
		return x.mk(t, to)
	}
	if fs == SStr {
		if _, ok := tu.(*types.Slice); ok {
			r := x.alloc(st)
			sl := fmt.Sprintf("(mk_slice %s (strlen %s) (strlen %s))", r, v.Term, v.Term)
			f := x.D.Fun("bytes.tostr", []string{"(Array Int Int)", SInt}, SStr)
			g := x.D.Fun("str.tobytes", []string{SStr}, "(Array Int Int)")
			bk := x.TM.Key(types.Typ[types.Uint8])
			name := x.TM.ElemArray(bk)
			st.Heap[name] = Store(x.elemArr(st, bk), r, app(g, v.Term))
			x.D.Axiom(fmt.Sprintf("(= %s %s)", app(f, app(g, v.Term), app("strlen", v.Term)), v.Term))
			return x.mk(sl, to)
		}
	}
	if fs == SBV && ts == SInt {
		return x.mk(app("bv2nat", v.Term), to)
	}
	if fs == SInt && ts == SBV {
		return x.mk(app("(_ int2bv 32)", v.Term), to)
	}
	if fs == SInt && ts == SStr {
		f := x.D.Fun("str.fromrune", []string{SInt}, SStr)
		return x.mk(app(f, v.Term), to)
	}
	if fs == SInt && ts == "Real" {
		return x.mk(app("to_real", v.Term), to)
	}
	if fs == "Real" && ts == SInt {
		f := x.D.Fun("go.trunc", []string{"Real"}, SInt)
		return x.mk(app(f, v.Term), to)
	}
	x.fail("unsupported conversion %v -> %v", from, to)
	return Value{}
}

// ---------- maps

func (x *Exec) mapSorts(t types.Type) (string, string, *types.Map) {
	mt := types.Unalias(t).Underlying().(*types.Map)
	return x.TM.Sort(mt.Key()), x.TM.Sort(mt.Elem()), mt
}

func (x *Exec) mapArrays(st *State, t types.Type) (hn, vn, has, val string) {
	ks, vs, _ := x.mapSorts(t)
	hn = x.TM.MapHas(ks, vs)
	vn = x.TM.MapVal(ks, vs)
	has = x.heapArr(st, hn, SInt, fmt.Sprintf("(Array %s Bool)", ks))
	val = x.heapArr(st, vn, SInt, fmt.Sprintf("(Array %s %s)", ks, vs))
	return
}

// mapKey normalises a key term (interfaces: hashability obligation).
func (x *Exec) mapKeyCheck(st *State, ins ssa.Instruction, k Value, mt *types.Map) {
	if _, ok := types.Unalias(mt.Key()).Underlying().(*types.Interface); ok {
		// dynamic type must be hashable
		h := x.hashablePred(app("itag", k.Term))
		x.emit(st, "hashable", x.labelFor(ins, "hashable", describe(ins.(ssa.Value))), h, "")
		st.Assume(h)
	}
}

func (x *Exec) hashablePred(tag string) string {
	f := x.D.Fun("hashable", []string{SInt}, SBool)
	x.D.Axiom("(hashable 0)")
	return app(f, tag)
}

func (x *Exec) mapUpdate(st *State, ins *ssa.MapUpdate) {
	m := x.val(st, ins.Map)
	k := x.val(st, ins.Key)
	v := x.val(st, ins.Value)
	_, _, mt := x.mapSorts(ins.Map.Type())
	x.emit(st, "nilmap", x.labelFor(ins, "nilmap", describe(ins.Map)), Not(Eq(m.Term, "0")), "")
	st.Assume(Not(Eq(m.Term, "0")))
	if _, ok := types.Unalias(mt.Key()).Underlying().(*types.Interface); ok {
		h := x.hashablePred(app("itag", k.Term))
		x.emit(st, "hashable", x.labelFor(ins, "hashable", describe(ins.Map)), h, "")
		st.Assume(h)
	}
	x.checkMapWrite(st, m.Term, ins)
	hn, vn, has, val := x.mapArrays(st, ins.Map.Type())
	st.Heap[hn] = Store(has, m.Term, Store(Select(has, m.Term), k.Term, "true"))
	st.Heap[vn] = Store(val, m.Term, Store(Select(val, m.Term), k.Term, x.asTerm(v)))
}

func (x *Exec) lookup(st *State, ins *ssa.Lookup) Value {
	m := x.val(st, ins.X)
	k := x.val(st, ins.Index)
	if _, ok := types.Unalias(ins.X.Type()).Underlying().(*types.Map); !ok {
		// string index
		x.emit(st, "bounds", x.labelFor(ins, "bounds", describe(ins.X)), fmt.Sprintf("(and (>= %s 0) (< %s (strlen %s)))", k.Term, k.Term, m.Term), "")
		f := x.D.Fun("str.at", []string{SStr, SInt}, SInt)
		return x.mk(app(f, m.Term, k.Term), ins.Type())
	}
	_, _, mt := x.mapSorts(ins.X.Type())
	if _, ok := types.Unalias(mt.Key()).Underlying().(*types.Interface); ok {
		h := x.hashablePred(app("itag", k.Term))
		x.emit(st, "hashable", x.labelFor(ins, "hashable", describe(ins.X)), h, "")
		st.Assume(h)
	}
	_, _, has, val := x.mapArrays(st, ins.X.Type())
	ok := And(Not(Eq(m.Term, "0")), Select(Select(has, m.Term), k.Term))
	v := Ite(ok, Select(Select(val, m.Term), k.Term), x.TM.Zero(mt.Elem()))
	rv := x.mk(v, mt.Elem())
	x.assumeTypeInvCond(st, rv, "true")
	if ins.CommaOk {
		return Value{Tup: []Value{rv, {Term: ok, Typ: types.Typ[types.Bool], Sort: SBool}}}
	}
	return rv
}

func (x *Exec) mapLen(st *State, m Value) string {
	ks, _, _ := x.mapSorts(m.Typ)
	_, _, has, _ := x.mapArrays(st, m.Typ)
	f := x.D.Fun("maplen."+sortName(ks), []string{fmt.Sprintf("(Array %s Bool)", ks)}, SInt)
	arr := Select(has, m.Term)
	t := app(f, arr)
	empty := fmt.Sprintf("((as const (Array %s Bool)) false)", ks)
	wit := x.D.Fun("mapwit."+sortName(ks), []string{fmt.Sprintf("(Array %s Bool)", ks)}, ks)
	st.Assume(fmt.Sprintf("(and (>= %s 0) (= (= %s 0) (= %s %s)) (=> (> %s 0) (select %s (%s %s))))", t, t, arr, empty, t, arr, wit, arr))
	return Ite(Eq(m.Term, "0"), "0", t)
}

// range over map / string
func (x *Exec) rangeInit(st *State, ins *ssa.Range) Value {
	m := x.val(st, ins.X)
	if _, ok := types.Unalias(ins.X.Type()).Underlying().(*types.Map); !ok {
		x.fail("range over string unsupported")
	}
	ks, vs, _ := x.mapSorts(ins.X.Type())
	it := &IterState{Instr: ins, MapRef: m.Term, KSort: ks, VSort: vs,
		Visited: fmt.Sprintf("((as const (Array %s Bool)) false)", ks)}
	return Value{Iter: it, Typ: ins.Type()}
}

func (x *Exec) rangeNext(st *State, ins *ssa.Next) Value {
	itv := x.val(st, ins.Iter)
	it := itv.Iter
	if it == nil {
		x.fail("next on unknown iterator")
	}
	rng := it.Instr
	mt := types.Unalias(rng.X.Type()).Underlying().(*types.Map)
	_, _, has, val := x.mapArrays(st, rng.X.Type())
	hasM := Select(has, it.MapRef)
	ok := x.D.Fresh("next.ok", SBool)
	k := x.D.Fresh("next.k", it.KSort)
	// ok => has(k) && !visited(k);  !ok => forall k. has(k) => visited(k)
	st.Assume(Implies(ok, And(Not(Eq(it.MapRef, "0")), Select(hasM, k), Not(Select(it.Visited, k)))))
	st.Assume(Implies(Not(ok), Or(Eq(it.MapRef, "0"), fmt.Sprintf("(forall ((k!q %s)) (=> (select %s k!q) (select %s k!q)))", it.KSort, hasM, it.Visited))))
	nit := *it
	nit.Visited = Store(it.Visited, k, "true")
	// update iterator register in frame (the Range instruction's register)
	st.top().Regs[rng] = Value{Iter: &nit, Typ: rng.Type()}
	kv := x.mk(k, mt.Key())
	if kv.Sort == SIface {
		// keys stored in a map are hashable by construction
		st.Assume(Implies(ok, x.hashablePred(app("itag", k))))
	}
	vv := x.mk(Select(Select(val, it.MapRef), k), mt.Elem())
	x.assumeTypeInvCond(st, kv, ok)
	x.assumeTypeInvCond(st, vv, ok)
	return Value{Tup: []Value{{Term: ok, Typ: types.Typ[types.Bool], Sort: SBool}, kv, vv}}
}

// assumeBackground assumes axioms and global invariants from all contract files.
func (x *Exec) assumeBackground(st *State) {
	for _, cf := range x.P.Files {
		for _, c := range cf.Axioms {
			env := &Env{x: x, st: st, old: st, vars: map[string]Value{}, cf: cf}
			x.D.OptAxiom(x.evalBool(env, c.E, c))
		}
	}
	// global invariants: assumed unless we are verifying the package initialiser that establishes them
	for _, cf := range x.P.Files {
		if x.Fn.Name() == "init" && x.Fn.Pkg != nil && cf.PkgPath == x.Fn.Pkg.Pkg.Path() {
			continue
		}
		for gi, c := range cf.GlobalInv {
			env := &Env{x: x, st: st, old: st, vars: map[string]Value{}, cf: cf}
			g := x.evalBool(env, c.E, c)
			x.D.giSet[g] = true
			if x.giInit == nil {
				x.giInit = map[*Clause]string{}
			}
			x.giInit[&cf.GlobalInv[gi]] = g
			st.Assume(g)
		}
	}
}

// subSliceCopy models s[lo:hi] with lo != 0 as a fresh view holding a copy of the elements
// (aliasing with the original backing array is not modelled; listed as a modelling assumption).
func (x *Exec) subSliceCopy(st *State, base, lo, hi, capT string, et types.Type, rt types.Type) Value {
	es := x.TM.Key(et)
	name := x.TM.ElemArray(es)
	arr := x.elemArr(st, es)
	r := x.alloc(st)
	inner := x.D.Fresh("sub", fmt.Sprintf("(Array Int %s)", ksort(es)))
	st.Assume(fmt.Sprintf("(forall ((i!q Int)) (! (= (select %s i!q) (select (select %s %s) (+ %s i!q))) :pattern ((select %s i!q))))", inner, arr, base, lo, inner))
	st.Heap[name] = Store(arr, r, inner)
	x.Assumptions["sub-slice with non-zero low bound modelled as a copy"] = true
	return x.mk(fmt.Sprintf("(mk_slice %s (- %s %s) (- %s %s))", r, hi, lo, capT, lo), rt)
}

// exploded: slices/arrays of (transparent) struct elements keep each element as an object at elemref(base, i),
// with its fields in the per-field heap arrays. This makes &s[i] a first-class reference.
func (x *Exec) exploded(et types.Type) bool {
	if isTime(et) || x.TM.IsOpaqueStruct(et) {
		return false
	}
	_, ok := types.Unalias(et).Underlying().(*types.Struct)
	return ok
}

func (x *Exec) elemRef(base, idx string) string {
	f := x.D.Fun("elemref", []string{SInt, SInt}, SInt)
	x.D.Fun("eref.base", []string{SInt}, SInt)
	x.D.Fun("eref.idx", []string{SInt}, SInt)
	x.D.Axiom("(forall ((b!q Int) (i!q Int)) (! (and (= (eref.base (elemref b!q i!q)) b!q) (= (eref.idx (elemref b!q i!q)) i!q) (< (elemref b!q i!q) 0)) :pattern ((elemref b!q i!q))))")
	return app(f, base, idx)
}

// zeroStructElems: the elements of a fresh struct array are zero (assumed about cells never read before).
func (x *Exec) zeroStructElems(st *State, base string, et types.Type) {
	stt := types.Unalias(et).Underlying().(*types.Struct)
	for i := 0; i < stt.NumFields(); i++ {
		name, vs := x.TM.FieldArray(et, stt, i)
		arr := x.heapArr(st, name, SInt, vs)
		st.Assume(fmt.Sprintf("(forall ((i!q Int)) (! (= (select %s (elemref %s i!q)) %s) :pattern ((elemref %s i!q))))", arr, base, x.TM.Zero(stt.Field(i).Type()), base))
	}
	x.elemRef(base, "0")
}
