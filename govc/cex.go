package main

// Counterexample construction and replay on the real code.
//
// For a failed obligation of function F the negated obligation is given back to the solver with models switched on,
// first as it is and then with its quantified *assumptions* removed (a weaker path condition: a model of it may be
// spurious, which is harmless because the only thing that counts is what the real code does with the input). The
// model's values for F's parameters are read with get-value and turned into Go values; an in-package test calls the
// real F with them (go test -overlay, nothing written to /repo) and checks (a) that F does not panic and (b) every
// `ensures` clause of F's contract that can be translated to Go (no abstract functions, no call log, no old()).
// A panic or a violated clause is a failing input for the property; anything else leaves the violation reported with
// no-failing-input-found.
//
// Supported inputs: booleans, integers, strings, time.Time, x509.KeyUsage, structs and pointers to structs of those
// (fields whose heap array the query never mentions stay zero), slices of up to 3 such elements, *big.Int, and
// interface values whose dynamic type is one of these. Functions with map, func or channel parameters are skipped.

import (
	"context"
	"fmt"
	"go/types"
	"math/big"
	"os"
	"path/filepath"
	"regexp"
	"sort"
	"strconv"
	"strings"
	"time"

	"golang.org/x/tools/go/ssa"
)

type cexBuilder struct {
	x      *Exec
	o      *Obligation
	want   map[string]bool   // terms whose value is needed
	vals   map[string]string // term -> model value (text)
	failed string            // reason the input cannot be built
	imports map[string]string // alias -> path
	itagAllowed map[string][]int // (itag t) -> dynamic type tags that can be constructed for that position
	timeTerms   map[string]bool
	tmp    int
}

func (b *cexBuilder) fail(format string, a ...any) string {
	if b.failed == "" {
		b.failed = fmt.Sprintf(format, a...)
	}
	return "nil"
}

// val returns the model value of term (collect mode: records the request).
func (b *cexBuilder) val(term string) (string, bool) {
	if b.vals == nil {
		b.want[term] = true
		return "", false
	}
	v, ok := b.vals[term]
	return v, ok
}

func (b *cexBuilder) declared(constName string) bool {
	return b.o.Decls.Has("c:" + constName)
}

func parseIntVal(v string) (int64, bool) {
	v = strings.TrimSpace(v)
	if strings.HasPrefix(v, "(- ") && strings.HasSuffix(v, ")") {
		n, err := strconv.ParseInt(strings.TrimSpace(v[3:len(v)-1]), 10, 64)
		return -n, err == nil
	}
	n, err := strconv.ParseInt(v, 10, 64)
	return n, err == nil
}

func (b *cexBuilder) qualify(t types.Type) string {
	return types.TypeString(t, func(p *types.Package) string {
		if b.x.Fn.Pkg != nil && p == b.x.Fn.Pkg.Pkg {
			return ""
		}
		alias := p.Name()
		if old, ok := b.imports[alias]; ok && old != p.Path() {
			alias = alias + strconv.Itoa(len(b.imports))
		}
		b.imports[alias] = p.Path()
		return alias
	})
}

// goValue builds a Go expression of type t whose value is what `term` denotes in the model (entry heap).
func (b *cexBuilder) goValue(term string, t types.Type, depth int) string {
	if depth > 3 {
		switch types.Unalias(t).Underlying().(type) {
		case *types.Interface, *types.Pointer, *types.Slice, *types.Map:
			return "nil" // deeper structure is left out (the replay decides whether the input still fails)
		case *types.Struct:
			if !isTime(t) {
				return b.fail("value nested too deeply")
			}
		}
	}
	x := b.x
	t0 := t
	t = types.Unalias(t)
	if isTime(t) {
		if b.vals == nil {
			if b.timeTerms == nil {
				b.timeTerms = map[string]bool{}
			}
			b.timeTerms[term] = true
		}
		v, ok := b.val(term)
		if !ok {
			return "time.Time{}"
		}
		// the model's instants are nanoseconds since the zero Time (year 1): seconds are shifted to the Unix epoch
		bn, ok := new(big.Int).SetString(strings.TrimSpace(v), 10)
		if !ok || bn.Sign() < 0 || bn.BitLen() > 68 {
			return b.fail("time value %s out of range", v)
		}
		b.imports["time"] = "time"
		if bn.Sign() == 0 {
			return "time.Time{}"
		}
		sec, nsec := new(big.Int).DivMod(bn, big.NewInt(1000000000), new(big.Int))
		sec.Sub(sec, big.NewInt(62135596800))
		return fmt.Sprintf("time.Unix(%s, %s).UTC()", sec.String(), nsec.String())
	}
	if isKeyUsage(t) {
		v, ok := b.val(term)
		if !ok {
			return "0"
		}
		b.imports["x509"] = "crypto/x509"
		return "x509.KeyUsage(0x" + strings.TrimPrefix(v, "#x") + ")"
	}
	switch u := t.Underlying().(type) {
	case *types.Basic:
		switch {
		case u.Info()&types.IsBoolean != 0:
			v, ok := b.val(term)
			if !ok {
				return "false"
			}
			return b.qualify(t0) + "(" + v + ")"
		case u.Info()&types.IsInteger != 0:
			v, ok := b.val(term)
			if !ok {
				return "0"
			}
			n, ok := parseIntVal(v)
			if !ok {
				return b.fail("integer value %s", v)
			}
			return fmt.Sprintf("%s(%d)", b.qualify(t0), n)
		case u.Info()&types.IsString != 0:
			return b.qualify(t0) + "(" + b.goString(term) + ")"
		}
		return b.fail("basic type %s", t)
	case *types.Pointer:
		v, ok := b.val(term)
		if !ok && b.vals != nil {
			return "nil"
		}
		el := u.Elem()
		if b.vals != nil {
			if n, ok := parseIntVal(v); ok && n == 0 {
				return "nil"
			}
		}
		if isNamed(el, "math/big", "Int") {
			bv := app("bigval", term)
			if !b.o.Decls.Has("f:bigval") {
				b.imports["big"] = "math/big"
				return "big.NewInt(0)"
			}
			w, ok := b.val(bv)
			if !ok {
				b.imports["big"] = "math/big"
				return "big.NewInt(0)"
			}
			n, ok := parseIntVal(w)
			if !ok {
				return b.fail("big value %s", w)
			}
			b.imports["big"] = "math/big"
			return fmt.Sprintf("big.NewInt(%d)", n)
		}
		if st, ok := types.Unalias(el).Underlying().(*types.Struct); ok && !isTime(el) && !x.TM.IsOpaqueStruct(el) {
			return "&" + b.structLit(el, st, func(i int) (string, bool) {
				name, _ := x.TM.FieldArray(el, st, i)
				if !b.declared(name + "@0") {
					return "", false
				}
				return Select(name+"@0", term), true
			}, depth)
		}
		if b.constructible(el) {
			// pointer to a scalar cell (e.g. *time.Time)
			arr := x.TM.CellArray(x.TM.Key(el)) + "@0"
			if !b.declared(arr) {
				return fmt.Sprintf("new(%s)", b.qualify(el))
			}
			inner := b.goValue(Select(arr, term), el, depth+1)
			return fmt.Sprintf("func() *%s { v := %s; return &v }()", b.qualify(el), inner)
		}
		return b.fail("pointer to %s", el)
	case *types.Struct:
		if x.TM.IsOpaqueStruct(t) {
			return b.fail("opaque struct %s", t)
		}
		sn := x.TM.structName(t)
		return b.structLit(t, u, func(i int) (string, bool) { return app(x.TM.FieldSel(sn, u, i), term), true }, depth)
	case *types.Slice:
		lv, ok := b.val(app("slen", term))
		bv, _ := b.val(app("sbase", term))
		if b.vals != nil {
			n, ok2 := parseIntVal(lv)
			if !ok || !ok2 {
				return "nil"
			}
			if n > 3 {
				return b.fail("slice of length %d", n)
			}
			if bn, ok := parseIntVal(bv); ok && bn == 0 && n == 0 {
				return "nil"
			}
			var es []string
			for i := int64(0); i < n; i++ {
				es = append(es, b.sliceElem(term, u.Elem(), int(i), depth))
			}
			return b.qualify(t0) + "{" + strings.Join(es, ", ") + "}"
		}
		for i := 0; i < 3; i++ {
			b.sliceElem(term, u.Elem(), i, depth)
		}
		return "nil"
	case *types.Map:
		// the keys that matter are the ones the path (or the clause) looks up: key terms are collected from the query
		ks, vs := x.TM.Sort(u.Key()), x.TM.Sort(u.Elem())
		hn, vn := x.TM.MapHas(ks, vs)+"@0", x.TM.MapVal(ks, vs)+"@0"
		if !b.declared(hn) {
			if v, ok := b.val(term); ok {
				if n, ok := parseIntVal(v); ok && n == 0 {
					return "nil"
				}
			}
			return b.qualify(t0) + "{}"
		}
		keys := b.mapKeyTerms(hn, vn, term)
		rv, rok := b.val(term)
		if b.vals != nil && rok {
			if n, ok := parseIntVal(rv); ok && n == 0 {
				return "nil"
			}
		}
		var entries []string
		seen := map[string]bool{}
		for _, k := range keys {
			hv, ok := b.val(Select(Select(hn, term), k))
			kg := b.goValue(k, u.Key(), depth+1)
			vg := "nil"
			if b.declared(vn) {
				vg = b.goValue(Select(Select(vn, term), k), u.Elem(), depth+1)
			}
			if b.vals == nil || !ok || hv != "true" || seen[kg] {
				continue
			}
			seen[kg] = true
			entries = append(entries, kg+": "+vg)
		}
		return b.qualify(t0) + "{" + strings.Join(entries, ", ") + "}"
	case *types.Interface:
		tv, ok := b.val(app("itag", term))
		if b.vals == nil {
			// request the payload under every tag known so far whose type can be built and fits the interface
			if b.itagAllowed == nil {
				b.itagAllowed = map[string][]int{}
			}
			allowed := []int{}
			for i, dt := range x.TM.tagList {
				if b.constructible(dt) && types.Implements(dt, u) {
					allowed = append(allowed, i+1)
					b.goValue(x.TM.Unbox(x.TM.Sort(dt), app("ival", term)), dt, depth+1)
				}
			}
			b.itagAllowed[app("itag", term)] = allowed
			return "nil"
		}
		if !ok {
			return "nil"
		}
		n, ok := parseIntVal(tv)
		if !ok || n == 0 {
			return "nil"
		}
		if int(n) > len(x.TM.tagList) {
			return b.fail("dynamic type tag %d unknown", n)
		}
		dt := x.TM.tagList[n-1]
		if !b.constructible(dt) || !types.Implements(dt, u) {
			return b.fail("dynamic type %s cannot be constructed", dt)
		}
		inner := b.goValue(x.TM.Unbox(x.TM.Sort(dt), app("ival", term)), dt, depth+1)
		return b.qualify(t0) + "(" + inner + ")"
	}
	return b.fail("type %s", t)
}

// mapKeyTerms lists the key terms with which the query reads rows of the map `ref` (bound variables excluded).
func (b *cexBuilder) mapKeyTerms(hn, vn, ref string) []string {
	var text strings.Builder
	for _, a := range b.o.Assume {
		text.WriteString(a)
		text.WriteByte(' ')
	}
	text.WriteString(b.o.Goal)
	t := text.String()
	seen := map[string]bool{}
	var out []string
	for _, arr := range []string{hn, vn} {
		prefix := "(select (select " + arr + " " + ref + ") "
		for at := 0; ; {
			i := strings.Index(t[at:], prefix)
			if i < 0 {
				break
			}
			start := at + i + len(prefix)
			// one balanced term
			depth, end := 0, start
			for end < len(t) {
				c := t[end]
				if c == '(' {
					depth++
				} else if c == ')' {
					if depth == 0 {
						break
					}
					depth--
					if depth == 0 {
						end++
						break
					}
				} else if c == ' ' && depth == 0 {
					break
				}
				end++
			}
			k := t[start:end]
			at = end
			if k == "" || strings.Contains(k, "!b") || strings.Contains(k, "!q") || seen[k] {
				continue
			}
			seen[k] = true
			out = append(out, k)
			if len(out) >= 10 {
				return out
			}
		}
	}
	return out
}

func (b *cexBuilder) constructible(t types.Type) bool {
	t = types.Unalias(t)
	if isTime(t) || isKeyUsage(t) {
		return true
	}
	if n, ok := t.(*types.Named); ok && !n.Obj().Exported() && (b.x.Fn.Pkg == nil || n.Obj().Pkg() != b.x.Fn.Pkg.Pkg) {
		return false
	}
	switch u := t.Underlying().(type) {
	case *types.Basic:
		return u.Info()&(types.IsBoolean|types.IsInteger|types.IsString) != 0
	case *types.Pointer:
		if n, ok := types.Unalias(u.Elem()).(*types.Named); ok && !n.Obj().Exported() && (b.x.Fn.Pkg == nil || n.Obj().Pkg() != b.x.Fn.Pkg.Pkg) {
			return false
		}
		_, ok := types.Unalias(u.Elem()).Underlying().(*types.Struct)
		return ok && !b.x.TM.IsOpaqueStruct(u.Elem())
	case *types.Slice:
		return b.constructible(u.Elem())
	case *types.Struct:
		return !b.x.TM.IsOpaqueStruct(t)
	case *types.Interface:
		return u.NumMethods() == 0
	}
	return false
}

func (b *cexBuilder) sliceElem(sl string, et types.Type, i, depth int) string {
	x := b.x
	idx := strconv.Itoa(i)
	if x.exploded(et) {
		st := types.Unalias(et).Underlying().(*types.Struct)
		ref := app("elemref", app("sbase", sl), idx)
		if !b.o.Decls.Has("f:elemref") {
			return b.qualify(et) + "{}"
		}
		return b.structLit(et, st, func(fi int) (string, bool) {
			name, _ := x.TM.FieldArray(et, st, fi)
			if !b.declared(name + "@0") {
				return "", false
			}
			return Select(name+"@0", ref), true
		}, depth)
	}
	arr := x.TM.ElemArray(x.TM.Key(et)) + "@0"
	if !b.declared(arr) {
		return b.goValue("", et, 99) // zero value cannot be built without the array: give up
	}
	return b.goValue(Select(Select(arr, app("sbase", sl)), idx), et, depth+1)
}

func (b *cexBuilder) structLit(t types.Type, st *types.Struct, fieldTerm func(i int) (string, bool), depth int) string {
	var fs []string
	for i := 0; i < st.NumFields(); i++ {
		f := st.Field(i)
		ft, ok := fieldTerm(i)
		if !ok {
			continue
		}
		if !f.Exported() && (b.x.Fn.Pkg == nil || f.Pkg() != b.x.Fn.Pkg.Pkg) {
			continue // cannot be set from the test
		}
		if !b.constructible(f.Type()) {
			if _, isIface := types.Unalias(f.Type()).Underlying().(*types.Interface); !isIface {
				if !isNamedPtr(f.Type(), "math/big", "Int") {
					continue
				}
			}
		}
		saved := b.failed
		v := b.goValue(ft, f.Type(), depth+1)
		if b.failed != saved {
			// a field that cannot be built stays zero unless the model needs it (we cannot tell): keep going
			b.failed = saved
			continue
		}
		if b.vals != nil && (v == "nil" || v == "0" || v == "false" || v == `""`) {
			continue
		}
		fs = append(fs, f.Name()+": "+v)
	}
	return b.qualify(t) + "{" + strings.Join(fs, ", ") + "}"
}

func isNamedPtr(t types.Type, pkg, name string) bool {
	p, ok := types.Unalias(t).Underlying().(*types.Pointer)
	return ok && isNamed(p.Elem(), pkg, name)
}

// goString: a Go string literal for an abstract Str term: a program literal if the model says so, else a made-up text
// of the model's length, distinct per abstract value.
func (b *cexBuilder) goString(term string) string {
	lits := b.x.strLits
	if b.vals == nil {
		b.want[app("strlen", term)] = true
		for _, n := range lits {
			b.want[Eq(term, n)] = true
		}
		b.want[term] = true
		return `""`
	}
	var texts []string
	for s := range lits {
		texts = append(texts, s)
	}
	sort.Strings(texts)
	for _, s := range texts {
		if v, ok := b.vals[Eq(term, lits[s])]; ok && v == "true" {
			return strconv.Quote(s)
		}
	}
	if term == "str_empty" {
		return `""`
	}
	n := int64(0)
	if v, ok := b.vals[app("strlen", term)]; ok {
		n, _ = parseIntVal(v)
	}
	if n <= 0 {
		return `""`
	}
	if n > 4096 {
		b.fail("string of length %d", n)
		return `""`
	}
	// distinct abstract values get distinct texts
	id := b.vals[term]
	h := 0
	for _, c := range id {
		h = (h*31 + int(c)) % 26
	}
	return strconv.Quote(strings.Repeat(string(rune('a'+h)), int(n)))
}

// modelValues asks the solvers for a model of the failed obligation and evaluates terms in it.
func (o *Obligation) modelValues(dir string, terms []string, small []string) (map[string]string, string) {
	q := o.Query(true)
	q = strings.TrimSuffix(strings.TrimSpace(q), "(get-model)")
	q = strings.TrimSuffix(strings.TrimSpace(q), "(check-sat)")
	var gv strings.Builder
	for _, t := range terms {
		gv.WriteString("(echo \"@@\")\n(get-value (" + t + "))\n")
	}
	variants := []struct{ name, text string }{{"full", q}}
	// weaker variant: quantified assumptions dropped (the negated goal, which is the last assertion, is kept)
	lines := strings.Split(q, "\n")
	last := -1
	for i, l := range lines {
		if strings.HasPrefix(l, "(assert ") {
			last = i
		}
	}
	var w []string
	for i, l := range lines {
		if i != last && strings.HasPrefix(l, "(assert ") && (strings.Contains(l, "(forall ") || strings.Contains(l, "(exists ")) {
			continue
		}
		w = append(w, l)
	}
	variants = append(variants, struct{ name, text string }{"quantifier-free assumptions", strings.Join(w, "\n")})
	if len(small) > 0 {
		// prefer inputs that can be written down: short slices, dynamic types that can be constructed
		sm := "\n" + strings.Join(small, "\n")
		variants = append([]struct{ name, text string }{{"full, small inputs", q + sm}, {"quantifier-free assumptions, small inputs", strings.Join(w, "\n") + sm}}, variants...)
	}
	for _, v := range variants {
		file := filepath.Join(dir, fmt.Sprintf("cex_%d.smt2", time.Now().UnixNano()))
		os.WriteFile(file, []byte(v.text+"\n(check-sat)\n"+gv.String()), 0o644)
		for _, cfg := range solverCfgs[:2] {
			res := runSolver(context.Background(), cfg, file, 8*time.Second)
			if res.status != "sat" {
				continue
			}
			vals := map[string]string{}
			parts := strings.Split(res.out, "@@")
			for i, t := range terms {
				if i+1 >= len(parts) {
					break
				}
				p := strings.TrimSpace(parts[i+1])
				// ((term value))
				p = strings.TrimSpace(strings.TrimPrefix(p, "\"\""))
				if strings.HasPrefix(p, "((") && strings.HasSuffix(p, "))") {
					inner := p[2 : len(p)-2]
					// value is the suffix after the term text (terms are echoed as given modulo whitespace)
					f := splitSexp(inner)
					if len(f) >= 2 {
						vals[t] = strings.Join(strings.Fields(f[len(f)-1]), " ")
					}
				}
			}
			os.Remove(file)
			return vals, v.name + " (" + cfg.Name + ")"
		}
		os.Remove(file)
	}
	return nil, ""
}

// ---- contract clause -> Go

type goTr struct {
	b     *cexBuilder
	names map[string]string // contract identifier -> Go expression
	bound map[string]bool
	err   string
	cf    *ContractFile
	depth int
}

func (g *goTr) bad(format string, a ...any) string {
	if g.err == "" {
		g.err = fmt.Sprintf(format, a...)
	}
	return "false"
}

var unsupportedBuiltins = map[string]bool{"old": true, "called": true, "ncalls": true, "lastret": true, "lastarg": true, "allocated": true,
	"bigval": true, "fnresult": true, "lent": true, "lentany": true, "panicked": true, "chanlen": true, "hashable": true, "tostr": true, "zero": true}

func (g *goTr) tr(e Expr) string {
	if g.err != "" {
		return "false"
	}
	switch e := e.(type) {
	case *EIdent:
		if v, ok := g.names[e.Name]; ok {
			return v
		}
		if g.bound[e.Name] {
			return e.Name
		}
		// package-level object of the function's own package (constant, variable)
		if g.b.x.Fn.Pkg != nil && g.b.x.Fn.Pkg.Pkg.Scope().Lookup(e.Name) != nil {
			return e.Name
		}
		return g.bad("identifier %s", e.Name)
	case *EInt:
		return e.V
	case *EStr:
		return strconv.Quote(e.V)
	case *EBool:
		if e.V {
			return "true"
		}
		return "false"
	case *ENil:
		return "nil"
	case *EUnary:
		if e.Op == "*" {
			return "(*" + g.tr(e.X) + ")"
		}
		return "(" + e.Op + g.tr(e.X) + ")"
	case *EBinary:
		// typeof(x) == type(T)
		if e.Op == "==" || e.Op == "!=" {
			if c, ok := e.X.(*ECall); ok {
				if id, ok := c.Fun.(*EIdent); ok && id.Name == "typeof" && len(c.Args) == 1 {
					if tl, ok := e.Y.(*EType); ok {
						s := fmt.Sprintf("func() bool { _, ok := any(%s).(%s); return ok }()", g.tr(c.Args[0]), g.typeText(tl.T))
						if e.Op == "!=" {
							return "!" + s
						}
						return s
					}
				}
			}
		}
		a, c := g.tr(e.X), g.tr(e.Y)
		switch e.Op {
		case "==>":
			return "(!(" + a + ") || (" + c + "))"
		case "<==>":
			return "((" + a + ") == (" + c + "))"
		}
		return "(" + a + " " + e.Op + " " + c + ")"
	case *ESel:
		// pkg.Name (an import alias may coincide with a bound name such as `result`: a constant, variable or function
		// of the package wins over a field selection)
		if id, ok := e.X.(*EIdent); ok && (g.names[id.Name] != "" || g.bound[id.Name]) {
			if path, ok := g.cf.Imports[id.Name]; ok {
				if tp := g.b.x.P.TPkgs[path]; tp != nil {
					if o := tp.Scope().Lookup(e.Name); o != nil {
						if _, isType := o.(*types.TypeName); !isType {
							g.b.imports[id.Name] = path
							return id.Name + "." + e.Name
						}
					}
				}
			}
		}
		if id, ok := e.X.(*EIdent); ok && g.names[id.Name] == "" && !g.bound[id.Name] {
			if path, ok := g.cf.Imports[id.Name]; ok {
				if g.b.x.Fn.Pkg != nil && path == g.b.x.Fn.Pkg.Pkg.Path() {
					return e.Name
				}
				g.b.imports[id.Name] = path
				return id.Name + "." + e.Name
			}
		}
		if e.Name == "err" || strings.HasPrefix(e.Name, "result") {
			// f$(args).resultK / .err: call the real function of this package and pick a result
			if c, ok := e.X.(*ECall); ok {
				if id, ok := c.Fun.(*EIdent); ok && strings.HasSuffix(id.Name, "$") {
					return g.progCall(strings.TrimSuffix(id.Name, "$"), c.Args, e.Name)
				}
			}
			return g.bad("selection of a call result")
		}
		return g.tr(e.X) + "." + e.Name
	case *EIndex:
		return g.tr(e.X) + "[" + g.tr(e.I) + "]"
	case *EIte:
		return "govcIte(" + g.tr(e.C) + ", " + g.tr(e.A) + ", " + g.tr(e.B) + ")"
	case *EOld:
		if g.b.x.FC != nil && len(g.b.x.FC.ModSrc) == 0 {
			return g.tr(e.X)
		}
		return g.bad("old()")
	case *EQuant:
		return g.quant(e)
	case *ECall:
		switch f := e.Fun.(type) {
		case *EIdent:
			switch f.Name {
			case "len", "cap":
				return f.Name + "(" + g.tr(e.Args[0]) + ")"
			case "fresh":
				return "true"
			case "has":
				return fmt.Sprintf("func() bool { _, ok := %s[%s]; return ok }()", g.tr(e.Args[0]), g.tr(e.Args[1]))
			case "box":
				return "any(" + g.tr(e.Args[0]) + ")"
			case "unbox":
				if tl, ok := e.Args[1].(*EType); ok {
					return g.tr(e.Args[0]) + ".(" + g.typeText(tl.T) + ")"
				}
			case "tostring":
				return "string(" + g.tr(e.Args[0]) + ")"
			case "elemptr":
				return "(&" + g.tr(e.Args[0]) + "[" + g.tr(e.Args[1]) + "])"
			case "fieldptr":
				if id, ok := e.Args[1].(*EIdent); ok {
					return "(&" + g.tr(e.Args[0]) + "." + id.Name + ")"
				}
			}
			if unsupportedBuiltins[f.Name] || f.Name == "typeof" {
				return g.bad("%s()", f.Name)
			}
			if strings.HasSuffix(f.Name, "$") {
				return g.progCall(strings.TrimSuffix(f.Name, "$"), e.Args, "result")
			}
			return g.specCall(g.b.x.P.Specs[g.cf.PkgPath+"."+f.Name], f.Name, e.Args, g.cf)
		case *ESel:
			if id, ok := f.X.(*EIdent); ok && g.names[id.Name] == "" && !g.bound[id.Name] {
				if path, ok := g.cf.Imports[id.Name]; ok {
					if sf := g.b.x.P.Specs[path+"."+f.Name]; sf != nil {
						return g.specCall(sf, f.Name, e.Args, g.b.x.P.SpecFile[sf])
					}
					if strings.HasSuffix(f.Name, "$") {
						return g.bad("program function %s", f.Name)
					}
					// a real function of an imported package (bytes.Equal ...): call it
					var as []string
					for _, a := range e.Args {
						as = append(as, g.tr(a))
					}
					g.b.imports[id.Name] = path
					return id.Name + "." + f.Name + "(" + strings.Join(as, ", ") + ")"
				}
			}
			// method call on a value (t.IsZero(), a.Before(b), id.Equal(x))
			var as []string
			for _, a := range e.Args {
				as = append(as, g.tr(a))
			}
			return g.tr(f.X) + "." + f.Name + "(" + strings.Join(as, ", ") + ")"
		}
	case *EType:
		return g.bad("type literal outside typeof/unbox")
	}
	return g.bad("expression %T", e)
}

// progCall: the value of result `which` of a call of the package's own function name(args).
func (g *goTr) progCall(name string, args []Expr, which string) string {
	if g.b.x.Fn.Pkg == nil {
		return g.bad("program function %s", name)
	}
	fo, ok := g.b.x.Fn.Pkg.Pkg.Scope().Lookup(name).(*types.Func)
	if !ok {
		return g.bad("program function %s", name)
	}
	sig := fo.Type().(*types.Signature)
	n := sig.Results().Len()
	idx := -1
	switch {
	case which == "err":
		idx = n - 1
	case which == "result":
		idx = 0
	default:
		fmt.Sscanf(strings.TrimPrefix(which, "result"), "%d", &idx)
	}
	if idx < 0 || idx >= n {
		return g.bad("result %s of %s", which, name)
	}
	var as, rs []string
	for _, a := range args {
		as = append(as, g.tr(a))
	}
	for i := 0; i < n; i++ {
		if i == idx {
			rs = append(rs, "r")
		} else {
			rs = append(rs, "_")
		}
	}
	return fmt.Sprintf("func() %s { %s := %s(%s); return r }()", g.b.qualify(sig.Results().At(idx).Type()), strings.Join(rs, ", "), name, strings.Join(as, ", "))
}

func (g *goTr) typeText(t string) string {
	// qualifiers are the contract file's import aliases
	re := regexp.MustCompile(`([A-Za-z_][A-Za-z0-9_]*)\.`)
	return re.ReplaceAllStringFunc(t, func(m string) string {
		alias := strings.TrimSuffix(m, ".")
		if path, ok := g.cf.Imports[alias]; ok {
			if g.b.x.Fn.Pkg != nil && path == g.b.x.Fn.Pkg.Pkg.Path() {
				return ""
			}
			g.b.imports[alias] = path
		}
		return m
	})
}

func (g *goTr) specCall(sf *SpecFunc, name string, args []Expr, cf *ContractFile) string {
	if sf == nil || sf.Body == nil {
		return g.bad("abstract or unknown spec function %s", name)
	}
	if g.depth > 12 {
		return g.bad("spec function nesting")
	}
	sub := &goTr{b: g.b, names: map[string]string{}, bound: g.bound, cf: cf, depth: g.depth + 1}
	for i, p := range sf.Params {
		if i < len(args) {
			sub.names[p.Name] = "(" + g.tr(args[i]) + ")"
		}
	}
	s := sub.tr(sf.Body)
	if sub.err != "" {
		return g.bad("%s", sub.err)
	}
	return "(" + s + ")"
}

// quant translates `forall/exists v... :: guard ==> body` over integer ranges `lo <= v && v < hi` into a loop.
func (g *goTr) quant(e *EQuant) string {
	for _, v := range e.Vars {
		if v.Type != "" && v.Type != "int" {
			return g.bad("quantifier over %s", v.Type)
		}
	}
	var guard, body Expr
	if be, ok := e.Body.(*EBinary); ok && e.Forall && be.Op == "==>" {
		guard, body = be.X, be.Y
	} else if !e.Forall {
		guard, body = e.Body, &EBool{V: true}
	} else {
		return g.bad("quantifier without range guard")
	}
	var conj []Expr
	var flat func(x Expr)
	flat = func(x Expr) {
		if b, ok := x.(*EBinary); ok && b.Op == "&&" {
			flat(b.X)
			flat(b.Y)
			return
		}
		conj = append(conj, x)
	}
	flat(guard)
	saved := map[string]bool{}
	for k, v := range g.bound {
		saved[k] = v
	}
	defer func() { g.bound = saved }()
	nb := map[string]bool{}
	for k, v := range g.bound {
		nb[k] = v
	}
	g.bound = nb
	var loops []string
	for _, v := range e.Vars {
		hi := ""
		for _, c := range conj {
			if b, ok := c.(*EBinary); ok && (b.Op == "<" || b.Op == "<=") {
				if id, ok := b.X.(*EIdent); ok && id.Name == v.Name {
					h := g.tr(b.Y)
					if b.Op == "<=" {
						h = "(" + h + ")+1"
					}
					hi = h
				}
			}
		}
		if hi == "" {
			return g.bad("no upper bound for quantified %s", v.Name)
		}
		g.bound[v.Name] = true
		loops = append(loops, fmt.Sprintf("for %s := -1; %s < %s; %s++ {", v.Name, v.Name, hi, v.Name))
	}
	gd, bd := g.tr(guard), g.tr(body)
	closes := strings.Repeat("}", len(loops))
	if e.Forall {
		return fmt.Sprintf("func() bool { %s if (%s) && !(%s) { return false }; %s; return true }()", strings.Join(loops, " "), gd, bd, closes)
	}
	return fmt.Sprintf("func() bool { %s if (%s) && (%s) { return true }; %s; return false }()", strings.Join(loops, " "), gd, bd, closes)
}

// unrolledCandidates re-runs the function of obligation o with its loops unrolled k times (no invariants, no havoc)
// and returns the obligations of that run that are worth asking a model for: the same clause first, then the other
// postconditions and safety obligations. Obligations of the cut-loop run (invariant preservation, ...) have models
// whose loop state need not be reachable from the model's inputs; on the unrolled paths every model is an execution.
func unrolledCandidates(p *Prog, o *Obligation, k int) []*Obligation {
	x2 := NewExec(p, o.X.Fn)
	x2.Unroll = k
	x2.MaxStates = 1500
	func() {
		defer func() { recover() }()
		x2.Run()
	}()
	var same, posts, safety []*Obligation
	for _, c := range x2.Obls {
		if c.Smoke || c.Goal == "true" {
			continue
		}
		switch {
		case c.Name == o.Name:
			same = append(same, c)
		case c.Kind == "post":
			posts = append(posts, c)
		case c.Kind == "nil" || c.Kind == "bounds" || c.Kind == "typeassert" || c.Kind == "hashable" || c.Kind == "div0" || c.Kind == "nilmap" || c.Kind == "panic" || c.Kind == "makeslice":
			safety = append(safety, c)
		}
	}
	out := append(append(same, posts...), safety...)
	if len(out) > 60 {
		out = out[:60]
	}
	return out
}

// buildReplayTest produces the in-package test for obligation o, or a reason why none can be built.
func buildReplayTest(p *Prog, o *Obligation, smtDir string) (src, pkgDir, how, reason string) {
	x := o.X
	if x == nil || x.Fn == nil || x.Fn.Pkg == nil {
		return "", "", "", "no function context"
	}
	fn := x.Fn
	if len(fn.FreeVars) > 0 || fn.Parent() != nil {
		return "", "", "", "closure"
	}
	if strings.HasPrefix(fn.Name(), "init") || fn.Synthetic != "" {
		return "", "", "", "package initialiser or synthetic function: cannot be called from a test"
	}
	b := &cexBuilder{x: x, o: o, want: map[string]bool{}, imports: map[string]string{"testing": "testing"}}
	// collect
	for _, prm := range fn.Params {
		v := x.params[prm.Name()]
		if v.Ptr != nil && v.Term == "" {
			return "", "", "", "parameter " + prm.Name() + " is an engine pointer"
		}
		switch types.Unalias(prm.Type()).Underlying().(type) {
		case *types.Signature, *types.Chan:
			return "", "", "", "parameter " + prm.Name() + " of type " + prm.Type().String()
		}
		b.goValue(v.Term, prm.Type(), 0)
	}
	if b.failed != "" {
		return "", "", "", b.failed
	}
	var terms []string
	for t := range b.want {
		if t != "" {
			terms = append(terms, t)
		}
	}
	sort.Strings(terms)
	var small []string
	for _, t := range terms {
		if strings.HasPrefix(t, "(slen ") {
			small = append(small, "(assert (<= "+t+" 3))")
		}
		if b.timeTerms[t] {
			small = append(small, "(assert (and (>= "+t+" 0) (<= "+t+" 100000000000000000000)))")
		}
		if strings.HasPrefix(t, "(strlen ") {
			small = append(small, "(assert (<= "+t+" 40))")
		}
		if strings.HasPrefix(t, "(itag ") {
			alts := []string{Eq(t, "0")}
			for _, tg := range b.itagAllowed[t] {
				alts = append(alts, Eq(t, strconv.Itoa(tg)))
			}
			small = append(small, "(assert "+Or(alts...)+")")
		}
	}
	if o.Decls.Has("f:pure.time.Now") || o.Decls.Has("c:pure.time.Now") {
		// the replay runs now: the model's clock is the real one
		now := new(big.Int).Add(big.NewInt(time.Now().Unix()), big.NewInt(62135596800))
		now.Mul(now, big.NewInt(1000000000))
		nowT := "pure.time.Now"
		if o.Decls.Has("f:pure.time.Now") && !strings.Contains(strings.Join(o.Decls.order, "\n"), "(declare-fun pure.time.Now () ") {
			nowT = ""
		}
		if nowT != "" {
			lo := new(big.Int).Sub(now, big.NewInt(60000000000))
			hi := new(big.Int).Add(now, big.NewInt(600000000000))
			small = append(small, fmt.Sprintf("(assert (and (>= %s %s) (<= %s %s)))", nowT, lo, nowT, hi))
		}
	}
	vals, how := o.modelValues(smtDir, terms, small)
	if vals == nil {
		return "", "", "", "no model (solvers answer unknown or unsat on the negated obligation)"
	}
	b.vals = vals
	var setup []string
	var args []string
	for i, prm := range fn.Params {
		v := x.params[prm.Name()]
		ge := b.goValue(v.Term, prm.Type(), 0)
		if b.failed != "" {
			return "", "", how, b.failed
		}
		setup = append(setup, fmt.Sprintf("\tvar p%d %s = %s", i, b.qualify(prm.Type()), ge))
		args = append(args, fmt.Sprintf("p%d", i))
	}
	// call
	sig := fn.Signature
	call := ""
	recv := sig.Recv()
	pargs := args
	if recv != nil {
		call = "p0." + fn.Name()
		pargs = args[1:]
	} else {
		call = fn.Name()
	}
	nres := sig.Results().Len()
	var rs []string
	for i := 0; i < nres; i++ {
		rs = append(rs, fmt.Sprintf("r%d", i))
	}
	callStmt := call + "(" + strings.Join(pargs, ", ") + ")"
	if nres > 0 {
		callStmt = strings.Join(rs, ", ") + " := " + callStmt
	}
	if sig.Variadic() {
		return "", "", how, "variadic function"
	}
	// clauses
	var checks []string
	var preChecks []string
	reqUntranslated := 0
	if x.FC != nil {
		g0 := map[string]string{}
		for i, n := range x.FC.Params {
			if i < len(args) {
				g0[n] = args[i]
			}
		}
		for i := 0; i < nres; i++ {
			g0[fmt.Sprintf("result%d", i)] = rs[i]
			if n := sig.Results().At(i).Name(); n != "" && n != "_" {
				g0[n] = rs[i]
			}
		}
		if nres > 0 {
			g0["result"] = rs[0]
			if types.TypeString(sig.Results().At(nres-1).Type(), nil) == "error" {
				g0["err"] = rs[nres-1]
			}
		}
		// preconditions first: an input that does not meet them (the reconstruction leaves out what it cannot build)
		// proves nothing; the test is skipped then
		gpre := map[string]string{}
		for i, n := range x.FC.Params {
			if i < len(args) {
				gpre[n] = args[i]
			}
		}
		for _, c := range x.FC.Requires {
			g := &goTr{b: b, names: gpre, bound: map[string]bool{}, cf: x.CF}
			sreq := g.tr(c.E)
			if g.err != "" {
				reqUntranslated++
				continue
			}
			preChecks = append(preChecks, fmt.Sprintf("\tif !(%s) {\n\t\tt.Skip(\"GOVC-REPLAY precondition not met by the constructed input\")\n\t}", sreq))
		}
		for _, c := range x.FC.Ensures {
			if c.UsesLog {
				continue
			}
			g := &goTr{b: b, names: g0, bound: map[string]bool{}, cf: x.CF}
			s := g.tr(c.E)
			if g.err != "" {
				continue
			}
			checks = append(checks, fmt.Sprintf("\tif !(%s) {\n\t\tt.Fatalf(\"GOVC-REPLAY ensures [%s] violated: %%s\", %s)\n\t}", s, c.Label, strconv.Quote(c.Src)))
		}
	}
	uses := ""
	for _, r := range rs {
		uses += "\t_ = " + r + "\n"
	}
	pkgDir = strings.TrimPrefix(strings.TrimPrefix(fn.Pkg.Pkg.Path(), p.ModPath), "/")
	// requires checks go before the call; they are droppable like the others (indices 0..len(preChecks)-1)
	plan := &replayPlan{pkg: fn.Pkg.Pkg.Name(), obligation: o.Name, imports: b.imports,
		setup: strings.Join(setup, "\n") + "\n", pre: "\t" + callStmt + "\n" + uses, checks: append(append([]string{}, preChecks...), checks...), nPre: len(preChecks), reqUntranslated: reqUntranslated}
	lastPlan = plan
	return plan.render(nil), pkgDir, how, ""
}

// replayPlan keeps the pieces of a generated test so that clauses whose Go translation does not type-check (the
// translation is untyped: e.g. == between slices) can be dropped and the test rendered again.
type replayPlan struct {
	pkg, obligation string
	imports         map[string]string
	setup, pre      string
	checks          []string
	nPre            int // the first nPre checks are preconditions, placed before the call
	reqUntranslated int
	checkLine       []int // first line of each check in the last rendering
}

var lastPlan *replayPlan

func (pl *replayPlan) render(skip map[int]bool) string {
	head := fmt.Sprintf("package %s\n\n// Generated by govc from a solver model of the failed obligation\n//   %s\n// The inputs below are the model's values for the function's parameters.\n\n", pl.pkg, pl.obligation)
	var body strings.Builder
	body.WriteString("func govcIte[T any](c bool, a, b T) T {\n\tif c {\n\t\treturn a\n\t}\n\treturn b\n}\n\nvar _ = govcIte[int]\n\n")
	body.WriteString("func TestGovcReplay(t *testing.T) {\n\tdefer func() {\n\t\tif r := recover(); r != nil {\n\t\t\tt.Fatalf(\"GOVC-REPLAY panic: %v\", r)\n\t\t}\n\t}()\n")
	body.WriteString(pl.setup)
	var kept []struct {
		idx  int
		text string
	}
	for i, c := range pl.checks {
		if !skip[i] {
			kept = append(kept, struct {
				idx  int
				text string
			}{i, c})
		}
	}
	marks := make([]string, len(kept))
	wroteCall := false
	for i, k := range kept {
		if k.idx >= pl.nPre && !wroteCall {
			body.WriteString(pl.pre)
			wroteCall = true
		}
		marks[i] = fmt.Sprintf("//@@check%d\n", k.idx)
		body.WriteString(marks[i] + k.text + "\n")
	}
	if !wroteCall {
		body.WriteString(pl.pre)
	}
	body.WriteString("}\n")
	code := body.String()
	var imps []string
	for a, pth := range pl.imports {
		if a != "testing" && !regexp.MustCompile(`\b`+regexp.QuoteMeta(a)+`\.`).MatchString(code) {
			continue
		}
		if a == filepath.Base(pth) || a == pth {
			imps = append(imps, fmt.Sprintf("\t%q", pth))
		} else {
			imps = append(imps, fmt.Sprintf("\t%s %q", a, pth))
		}
	}
	sort.Strings(imps)
	src := head + "import (\n" + strings.Join(imps, "\n") + "\n)\n\n" + code
	pl.checkLine = make([]int, len(pl.checks))
	for i := range pl.checkLine {
		pl.checkLine[i] = -1
	}
	for _, k := range kept {
		m := fmt.Sprintf("//@@check%d\n", k.idx)
		if at := strings.Index(src, m); at >= 0 {
			pl.checkLine[k.idx] = strings.Count(src[:at], "\n") + 2
		}
	}
	return src
}

// checkAtLine returns the index of the check that contains source line n of the last rendering, or -1.
func (pl *replayPlan) checkAtLine(n int) int {
	best := -1
	for i, l := range pl.checkLine {
		if l >= 0 && l <= n && (best < 0 || l > pl.checkLine[best]) {
			best = i
		}
	}
	if best >= 0 {
		// a check spans 3 lines
		if n > pl.checkLine[best]+2 {
			return -1
		}
	}
	return best
}

var _ = ssa.NaiveForm
