package main

// SMT-LIB term construction helpers. Terms are plain strings; sorts are plain strings.

import (
	"fmt"
	"sort"
	"strings"
)

const (
	SInt   = "Int"
	SBool  = "Bool"
	SStr   = "Str"
	SSlice = "Slice"
	SIface = "Iface"
	SAny   = "Any"
	SBV    = "(_ BitVec 32)"
)

// Decls collects declarations in creation order; each has a unique key.
type Decls struct {
	order []string
	seen  map[string]bool
	axiom []string // background assertions (ground or quantified), in order
	axSet map[string]bool
	n     int
}

func NewDecls() *Decls {
	d := &Decls{seen: map[string]bool{}, axSet: map[string]bool{}}
	d.order = append(d.order,
		"(declare-sort Str 0)",
		"(declare-sort Any 0)",
		"(declare-datatypes ((Slice 0)) (((mk_slice (sbase Int) (slen Int) (scap Int)))))",
		"(declare-datatypes ((Iface 0)) (((mk_iface (itag Int) (ival Any)))))",
		"(declare-fun strlen (Str) Int)",
		"(declare-const str_empty Str)",
		"(declare-const any_nil Any)",
	)
	d.axiom = append(d.axiom, "(= (strlen str_empty) 0)")
	return d
}

func (d *Decls) Add(key, line string) {
	if d.seen[key] {
		return
	}
	d.seen[key] = true
	d.order = append(d.order, line)
}

func (d *Decls) Has(key string) bool { return d.seen[key] }

func (d *Decls) Axiom(a string) {
	if d.axSet[a] {
		return
	}
	d.axSet[a] = true
	d.axiom = append(d.axiom, a)
}

func (d *Decls) Const(name, sort string) string {
	d.Add("c:"+name, fmt.Sprintf("(declare-const %s %s)", name, sort))
	return name
}

func (d *Decls) Fresh(prefix, sort string) string {
	d.n++
	name := fmt.Sprintf("%s!%d", sanitize(prefix), d.n)
	return d.Const(name, sort)
}

func (d *Decls) Fun(name string, args []string, ret string) string {
	d.Add("f:"+name, fmt.Sprintf("(declare-fun %s (%s) %s)", name, strings.Join(args, " "), ret))
	return name
}

func sanitize(s string) string {
	var b strings.Builder
	for _, r := range s {
		switch {
		case r >= 'a' && r <= 'z', r >= 'A' && r <= 'Z', r >= '0' && r <= '9', r == '_', r == '$', r == '!', r == '.':
			b.WriteRune(r)
		case r == '*':
			b.WriteString("P_")
		case r == '/':
			b.WriteString(".")
		case r == '[' || r == ']':
			b.WriteString("_")
		default:
			b.WriteString("_")
		}
	}
	return b.String()
}

func app(f string, args ...string) string {
	if len(args) == 0 {
		return f
	}
	return "(" + f + " " + strings.Join(args, " ") + ")"
}

func And(xs ...string) string {
	var ys []string
	for _, x := range xs {
		if x == "true" {
			continue
		}
		if x == "false" {
			return "false"
		}
		ys = append(ys, x)
	}
	if len(ys) == 0 {
		return "true"
	}
	if len(ys) == 1 {
		return ys[0]
	}
	return app("and", ys...)
}

func Or(xs ...string) string {
	var ys []string
	for _, x := range xs {
		if x == "false" {
			continue
		}
		if x == "true" {
			return "true"
		}
		ys = append(ys, x)
	}
	if len(ys) == 0 {
		return "false"
	}
	if len(ys) == 1 {
		return ys[0]
	}
	return app("or", ys...)
}

func Not(x string) string {
	if x == "true" {
		return "false"
	}
	if x == "false" {
		return "true"
	}
	if strings.HasPrefix(x, "(not ") && strings.HasSuffix(x, ")") {
		inner := x[5 : len(x)-1]
		if balanced(inner) {
			return inner
		}
	}
	return app("not", x)
}

func balanced(s string) bool {
	// is s a single complete term?
	depth := 0
	for i, r := range s {
		switch r {
		case '(':
			depth++
		case ')':
			depth--
			if depth < 0 {
				return false
			}
			if depth == 0 && i != len(s)-1 {
				return false
			}
		case ' ':
			if depth == 0 {
				return false
			}
		}
	}
	return depth == 0
}

func Implies(a, b string) string {
	if a == "true" {
		return b
	}
	if a == "false" || b == "true" {
		return "true"
	}
	return app("=>", a, b)
}

func Eq(a, b string) string {
	if a == b {
		return "true"
	}
	return app("=", a, b)
}

func Ite(c, a, b string) string {
	if c == "true" {
		return a
	}
	if c == "false" {
		return b
	}
	if a == b {
		return a
	}
	return app("ite", c, a, b)
}

func IntLit(n int64) string {
	if n < 0 {
		return fmt.Sprintf("(- %d)", -n)
	}
	return fmt.Sprintf("%d", n)
}

func Select(a, i string) string   { return app("select", a, i) }
func Store(a, i, v string) string { return app("store", a, i, v) }

func sortedKeys[V any](m map[string]V) []string {
	ks := make([]string, 0, len(m))
	for k := range m {
		ks = append(ks, k)
	}
	sort.Strings(ks)
	return ks
}
