package main

// SMT-LIB term construction helpers. Terms are plain strings; sorts are plain strings.

import (
	"fmt"
	"regexp"
	"sort"
	"strings"
	"sync"
)

const (
	SInt   = "Int"
	SBool  = "Bool"
	SStr   = "Str"
	SSlice = "Slice"
	SIface = "Iface"
	SAny   = "Any"
	SBV    = "(_ BitVec 32)"
)

// Decls collects declarations in creation order; each has a unique key.
type Decls struct {
	order []string
	seen  map[string]bool
	axiom []string // background assertions (ground or quantified), in order
	axSet map[string]bool
	giSet map[string]bool // assumptions that are global invariants: rendered only when one of their globals is mentioned
	optAxioms []optAxiom // file-level axioms: included in a query only when relevant (relevance closure on spec.* symbols)
	n     int
}

func NewDecls() *Decls {
	d := &Decls{seen: map[string]bool{}, axSet: map[string]bool{}, giSet: map[string]bool{}}
	d.order = append(d.order,
		"(declare-sort Str 0)",
		"(declare-sort Any 0)",
		"(declare-datatypes ((Slice 0)) (((mk_slice (sbase Int) (slen Int) (scap Int)))))",
		"(declare-datatypes ((Iface 0)) (((mk_iface (itag Int) (ival Any)))))",
		"(declare-fun strlen (Str) Int)",
		"(declare-const str_empty Str)",
		"(declare-const any_nil Any)",
	)
	d.axiom = append(d.axiom, "(= (strlen str_empty) 0)")
	return d
}

func (d *Decls) Add(key, line string) {
	if d.seen[key] {
		return
	}
	d.seen[key] = true
	d.order = append(d.order, line)
}

func (d *Decls) Has(key string) bool { return d.seen[key] }

func (d *Decls) Axiom(a string) {
	if d.axSet[a] {
		return
	}
	d.axSet[a] = true
	d.axiom = append(d.axiom, a)
}

type optAxiom struct {
	text string
	syms []string
}

var specSymRe = regexp.MustCompile(`spec\.[A-Za-z0-9_]+`)

// OptAxiom registers a file-level axiom that is only relevant to queries mentioning one of its abstract symbols.
func (d *Decls) OptAxiom(a string) {
	if d.axSet["opt:"+a] {
		return
	}
	d.axSet["opt:"+a] = true
	seen := map[string]bool{}
	var syms []string
	for _, m := range specSymRe.FindAllString(a, -1) {
		if !seen[m] {
			seen[m] = true
			syms = append(syms, m)
		}
	}
	if len(syms) == 0 {
		d.Axiom(a)
		return
	}
	d.optAxioms = append(d.optAxioms, optAxiom{a, syms})
}

func (d *Decls) Const(name, sort string) string {
	d.Add("c:"+name, fmt.Sprintf("(declare-const %s %s)", name, sort))
	return name
}

func (d *Decls) Fresh(prefix, sort string) string {
	d.n++
	name := fmt.Sprintf("%s!%d", sanitize(prefix), d.n)
	return d.Const(name, sort)
}

func (d *Decls) Fun(name string, args []string, ret string) string {
	d.Add("f:"+name, fmt.Sprintf("(declare-fun %s (%s) %s)", name, strings.Join(args, " "), ret))
	return name
}

func sanitize(s string) string {
	var b strings.Builder
	for _, r := range s {
		switch {
		case r >= 'a' && r <= 'z', r >= 'A' && r <= 'Z', r >= '0' && r <= '9', r == '_', r == '$', r == '!', r == '.':
			b.WriteRune(r)
		case r == '*':
			b.WriteString("P_")
		case r == '/':
			b.WriteString(".")
		case r == '[' || r == ']':
			b.WriteString("_")
		default:
			b.WriteString("_")
		}
	}
	return b.String()
}

// selector name -> field index (filled by TypeMap when datatypes are declared)
var selIndex sync.Map

func app(f string, args ...string) string {
	if len(args) == 0 {
		return f
	}
	if len(args) == 1 && strings.HasPrefix(args[0], "(mk_iface ") && (f == "itag" || f == "ival") {
		parts := splitSexp(args[0][1 : len(args[0])-1])
		if len(parts) == 3 {
			if f == "itag" {
				return parts[1]
			}
			return parts[2]
		}
	}
	if len(args) == 1 && strings.HasPrefix(f, "unbox.") && strings.HasPrefix(args[0], "(box."+f[6:]+" ") {
		parts := splitSexp(args[0][1 : len(args[0])-1])
		if len(parts) == 2 {
			return parts[1]
		}
	}
	if len(args) == 1 && strings.HasPrefix(args[0], "(mk_slice ") && (f == "sbase" || f == "slen" || f == "scap") {
		parts := splitSexp(args[0][1 : len(args[0])-1])
		if len(parts) == 4 {
			return parts[map[string]int{"sbase": 1, "slen": 2, "scap": 3}[f]]
		}
	}
	if len(args) == 1 && strings.HasPrefix(args[0], "(mk.T.") {
		if idx, ok := selIndex.Load(f); ok {
			parts := splitSexp(args[0][1 : len(args[0])-1])
			if i := idx.(int); i+1 < len(parts) && strings.HasPrefix(f, parts[0][3:]+".") {
				return parts[i+1]
			}
		}
	}
	return "(" + f + " " + strings.Join(args, " ") + ")"
}

func And(xs ...string) string {
	var ys []string
	for _, x := range xs {
		if x == "true" {
			continue
		}
		if x == "false" {
			return "false"
		}
		ys = append(ys, x)
	}
	if len(ys) == 0 {
		return "true"
	}
	if len(ys) == 1 {
		return ys[0]
	}
	return app("and", ys...)
}

func Or(xs ...string) string {
	var ys []string
	for _, x := range xs {
		if x == "false" {
			continue
		}
		if x == "true" {
			return "true"
		}
		ys = append(ys, x)
	}
	if len(ys) == 0 {
		return "false"
	}
	if len(ys) == 1 {
		return ys[0]
	}
	return app("or", ys...)
}

func Not(x string) string {
	if x == "true" {
		return "false"
	}
	if x == "false" {
		return "true"
	}
	if strings.HasPrefix(x, "(not ") && strings.HasSuffix(x, ")") {
		inner := x[5 : len(x)-1]
		if balanced(inner) {
			return inner
		}
	}
	return app("not", x)
}

func balanced(s string) bool {
	// is s a single complete term?
	depth := 0
	for i, r := range s {
		switch r {
		case '(':
			depth++
		case ')':
			depth--
			if depth < 0 {
				return false
			}
			if depth == 0 && i != len(s)-1 {
				return false
			}
		case ' ':
			if depth == 0 {
				return false
			}
		}
	}
	return depth == 0
}

func Implies(a, b string) string {
	if a == "true" {
		return b
	}
	if a == "false" || b == "true" {
		return "true"
	}
	return app("=>", a, b)
}

func Eq(a, b string) string {
	if a == b {
		return "true"
	}
	if isIntLit(a) && isIntLit(b) {
		return "false"
	}
	return app("=", a, b)
}

func Ite(c, a, b string) string {
	if c == "true" {
		return a
	}
	if c == "false" {
		return b
	}
	if a == b {
		return a
	}
	return app("ite", c, a, b)
}

func IntLit(n int64) string {
	if n < 0 {
		return fmt.Sprintf("(- %d)", -n)
	}
	return fmt.Sprintf("%d", n)
}

// Select with syntactic select-over-store simplification.
func Select(a, i string) string {
	for strings.HasPrefix(a, "(store ") {
		parts := splitSexp(a[1 : len(a)-1])
		if len(parts) != 4 {
			break
		}
		if parts[2] == i {
			return parts[3]
		}
		if distinctRefs(parts[2], i) {
			a = parts[1]
			continue
		}
		break
	}
	return app("select", a, i)
}

// allocation-base ancestry: base -> (parent base, offset of parent when this base was created)
var allocParent = map[string]struct {
	parent string
	off    int
}{}
var allocMu sync.Mutex

func noteAllocBase(nb, parent string, off int) {
	allocMu.Lock()
	allocParent[nb] = struct {
		parent string
		off    int
	}{parent, off}
	allocMu.Unlock()
}

// freshRef parses A0, A!n, (+ A0 k), (+ A!n k).
func freshRef(t string) (string, int, bool) {
	if t == "A0" || strings.HasPrefix(t, "A!") && !strings.ContainsAny(t, " ()") {
		return t, 0, true
	}
	if strings.HasPrefix(t, "(+ A") && strings.HasSuffix(t, ")") {
		f := strings.Fields(t[3 : len(t)-1])
		if len(f) == 2 {
			var k int
			if _, err := fmt.Sscanf(f[1], "%d", &k); err == nil && fmt.Sprintf("%d", k) == f[1] {
				if f[0] == "A0" || strings.HasPrefix(f[0], "A!") {
					return f[0], k, true
				}
			}
		}
	}
	return "", 0, false
}

func isIntLit(t string) bool {
	if t == "" {
		return false
	}
	for _, r := range t {
		if r < '0' || r > '9' {
			return false
		}
	}
	return true
}

// distinctRefs: syntactically provable disequality of two reference/index terms.
func distinctRefs(a, b string) bool {
	if a == b {
		return false
	}
	if isIntLit(a) && isIntLit(b) {
		return true
	}
	ba, ka, fa := freshRef(a)
	bb, kb, fb := freshRef(b)
	neg := func(t string) bool { return strings.HasPrefix(t, "(elemref ") || strings.HasPrefix(t, "g.") }
	if fa && fb {
		if ba == bb {
			return ka != kb
		}
		// is bb an ancestor of ba (ba newer)?
		lower := func(newB string, newK int, oldB string, oldK int) bool {
			lb := newK
			cur := newB
			allocMu.Lock()
			defer allocMu.Unlock()
			for i := 0; i < 1000; i++ {
				p, ok := allocParent[cur]
				if !ok {
					return false
				}
				lb += p.off
				cur = p.parent
				if cur == oldB {
					return oldK < lb
				}
			}
			return false
		}
		return lower(ba, ka, bb, kb) || lower(bb, kb, ba, ka)
	}
	if (fa && (neg(b) || b == "0")) || (fb && (neg(a) || a == "0")) {
		return true
	}
	isG := func(t string) bool { return strings.HasPrefix(t, "g.") && !strings.ContainsAny(t, " ()") }
	if isG(a) && isG(b) {
		return true // distinct package-level variables (asserted pairwise distinct in every query)
	}
	return false
}
func Store(a, i, v string) string { return app("store", a, i, v) }

func sortedKeys[V any](m map[string]V) []string {
	ks := make([]string, 0, len(m))
	for k := range m {
		ks = append(ks, k)
	}
	sort.Strings(ks)
	return ks
}
