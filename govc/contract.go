package main

// Contract language: file format and expression parser.

import (
	"fmt"
	"os"
	"strings"
	"unicode"
)

// ---------- expression AST

type Expr interface{}

type (
	EIdent  struct{ Name string }
	EInt    struct{ V string }
	EStr    struct{ V string }
	EBool   struct{ V bool }
	ENil    struct{}
	EUnary  struct {
		Op string
		X  Expr
	}
	EBinary struct {
		Op   string
		X, Y Expr
	}
	ESel struct {
		X    Expr
		Name string
	}
	EIndex struct{ X, I Expr }
	ECall  struct {
		Fun  Expr
		Args []Expr
	}
	EQuant struct {
		Forall bool
		Vars   []Binder
		Body   Expr
	}
	EIte  struct{ C, A, B Expr }
	EOld  struct{ X Expr }
	EType struct{ T string } // type(T) literal
)

type Binder struct {
	Name string
	Type string // type expression text; "" = int
}

// ---------- contract items

type Clause struct {
	UsesLog bool // mentions called()/lastret()/lastarg(): evidence about the function's own call log, not usable by callers
	Label string
	E     Expr
	Src   string
	File  string
	Line  int
}

type LoopContract struct {
	Key        string
	Invariants []Clause
	Decreases  []Clause
	Modifies   []string
}

type AnchorAssert struct {
	Anchor string // e.g. "before call crl.CertCheckStatus#0", "at return#2"
	Assume bool
	C      Clause
}

type FuncContract struct {
	Name     string // as written: "VerifyAuthenticity", "(*envelope).Verify", "(KeySpec).SignatureAlgorithm"
	Extern   bool   // contract for a dependency (assumed)
	Iface    bool   // interface method contract
	Params   []string
	Requires []Clause
	Ensures  []Clause
	Lemmas   []Clause // "lemma [label] E": a closed formula proved from the axioms, spec functions and global invariants alone (entry state, before the preconditions); never assumed anywhere
	Panics   []Clause // "panics E": may panic only when E
	Modifies []Expr
	ModSrc   []string
	Pure     bool
	Inline   bool
	Trusted  bool
	NoPanic  bool
	MayPanic bool // caller-supplied component: the call may exit by panic
	Logged   bool // record calls in the call log
	CallsDecl []string // logged callees this function may (transitively) call
	Owns     []string // "<closure suffix> <slice[index]>,..." ownership of go sites
	Loops    map[string]*LoopContract
	Asserts  []AnchorAssert
	Props    []string
	Refines  []string // "(pkg.Iface).Method [except label, label]": the interface contract this implementation is checked against
	Fresh    bool // result is freshly allocated (externs)
	File     string
	Line     int
	Used     bool
	Raw      []string
}

type SpecFunc struct {
	Name     string
	Params   []Binder
	Ret      string
	Body     Expr // nil => abstract (uninterpreted)
	File     string
	Line     int
	Pkg      string // package path where it is declared ("" for shared specs)
	Stmt     bool
}

type ContractFile struct {
	Path    string
	PkgPath string
	Imports map[string]string // name -> path
	Funcs   []*FuncContract
	Specs   []*SpecFunc
	Axioms  []Clause
	GlobalInv []Clause
}

type srcLine struct {
	text string
	line int
}

// ParseContractFile reads a .go file (taking only //@ lines) or a .gospec file (all lines).
func ParseContractFile(path, pkgPath string) (*ContractFile, error) {
	data, err := os.ReadFile(path)
	if err != nil {
		return nil, err
	}
	isGo := strings.HasSuffix(path, ".go")
	var lines []srcLine
	for i, l := range strings.Split(string(data), "\n") {
		t := strings.TrimRight(l, " \t\r")
		if isGo {
			tt := strings.TrimLeft(t, " \t")
			if !strings.HasPrefix(tt, "//@") {
				continue
			}
			t = tt[3:]
		}
		t = stripComment(t)
		if strings.TrimSpace(t) == "" {
			continue
		}
		lines = append(lines, srcLine{t, i + 1})
	}
	cf := &ContractFile{Path: path, PkgPath: pkgPath, Imports: map[string]string{}}
	// group into items: an item starts with a top-level keyword at the start of trimmed line
	type item struct {
		kw    string
		text  string
		line  int
		subs  []srcLine
	}
	var cur *FuncContract
	var curLoop *LoopContract
	var pend *struct {
		kw   string
		text string
		line int
	}
	flush := func() error {
		if pend == nil {
			return nil
		}
		p := pend
		pend = nil
		return cf.addItem(p.kw, p.text, p.line, &cur, &curLoop)
	}
	for _, sl := range lines {
		t := strings.TrimSpace(sl.text)
		kw, rest := splitKeyword(t)
		if kw != "" {
			if err := flush(); err != nil {
				return nil, err
			}
			pend = &struct {
				kw   string
				text string
				line int
			}{kw, rest, sl.line}
		} else {
			if pend == nil {
				return nil, fmt.Errorf("%s:%d: continuation without item: %s", path, sl.line, t)
			}
			pend.text += " " + t
		}
	}
	if err := flush(); err != nil {
		return nil, err
	}
	return cf, nil
}

var keywords = []string{"import", "abstract", "spec", "axiom", "func", "extern", "interface", "global-invariant",
	"requires", "ensures", "modifies", "pure", "inline", "trusted", "nopanic", "logged", "fresh", "loop", "invariant", "decreases", "assert", "assume", "props", "panics", "stmt", "calls", "maypanic", "owns", "refines", "lemma"}

func splitKeyword(t string) (string, string) {
	for _, k := range keywords {
		if t == k {
			return k, ""
		}
		if strings.HasPrefix(t, k+" ") || strings.HasPrefix(t, k+"\t") {
			return k, strings.TrimSpace(t[len(k):])
		}
	}
	return "", t
}

func stripComment(s string) string {
	inStr := false
	for i := 0; i < len(s)-1; i++ {
		c := s[i]
		if c == '"' {
			inStr = !inStr
		}
		if !inStr && c == '/' && s[i+1] == '/' {
			return s[:i]
		}
	}
	return s
}

func (cf *ContractFile) addItem(kw, text string, line int, cur **FuncContract, curLoop **LoopContract) error {
	errf := func(f string, a ...any) error {
		return fmt.Errorf("%s:%d: %s", cf.Path, line, fmt.Sprintf(f, a...))
	}
	parseClause := func(text string) (Clause, error) {
		label := ""
		t := strings.TrimSpace(text)
		if strings.HasPrefix(t, "[") {
			if j := strings.Index(t, "]"); j > 0 {
				label = t[1:j]
				t = strings.TrimSpace(t[j+1:])
			}
		}
		e, err := ParseExpr(t)
		if err != nil {
			return Clause{}, errf("%v in %q", err, t)
		}
		return Clause{Label: label, E: e, Src: t, File: cf.Path, Line: line, UsesLog: usesLog(e)}, nil
	}
	switch kw {
	case "import":
		f := strings.Fields(text)
		var name, path string
		if len(f) == 1 {
			path = strings.Trim(f[0], `"`)
			name = path[strings.LastIndex(path, "/")+1:]
		} else if len(f) == 2 {
			name, path = f[0], strings.Trim(f[1], `"`)
		} else {
			return errf("bad import")
		}
		cf.Imports[name] = path
		*cur = nil
	case "abstract", "spec", "stmt":
		// [stmt] spec func Name(params) Ret { body }   |  abstract func Name(params) Ret
		*cur = nil
		t := text
		stmt := kw == "stmt"
		if stmt {
			t = strings.TrimSpace(strings.TrimPrefix(t, "spec"))
		}
		t = strings.TrimSpace(strings.TrimPrefix(strings.TrimSpace(strings.TrimPrefix(t, "pure")), "func"))
		lp := strings.Index(t, "(")
		if lp < 0 {
			return errf("bad spec func header")
		}
		name := strings.TrimSpace(t[:lp])
		rp := matchParen(t, lp)
		if rp < 0 {
			return errf("unbalanced parens")
		}
		params, err := parseBinders(t[lp+1 : rp])
		if err != nil {
			return errf("%v", err)
		}
		rest := strings.TrimSpace(t[rp+1:])
		sf := &SpecFunc{Name: name, Params: params, File: cf.Path, Line: line, Pkg: cf.PkgPath, Stmt: stmt}
		if kw == "abstract" {
			sf.Ret = rest
			if sf.Ret == "" {
				sf.Ret = "bool"
			}
		} else {
			lb := strings.Index(rest, "{")
			if lb < 0 || !strings.HasSuffix(rest, "}") {
				return errf("spec func needs { body }")
			}
			sf.Ret = strings.TrimSpace(rest[:lb])
			if sf.Ret == "" {
				sf.Ret = "bool"
			}
			body := rest[lb+1 : len(rest)-1]
			e, err := ParseExpr(body)
			if err != nil {
				return errf("%v in spec body %q", err, body)
			}
			sf.Body = e
		}
		cf.Specs = append(cf.Specs, sf)
	case "axiom":
		*cur = nil
		c, err := parseClause(text)
		if err != nil {
			return err
		}
		cf.Axioms = append(cf.Axioms, c)
	case "global-invariant":
		*cur = nil
		c, err := parseClause(text)
		if err != nil {
			return err
		}
		cf.GlobalInv = append(cf.GlobalInv, c)
	case "func", "extern", "interface":
		t := text
		if kw == "extern" || kw == "interface" {
			t = strings.TrimSpace(strings.TrimPrefix(t, "func"))
		}
		// name is everything up to the parameter list: the last '(' that is matched by final ')'
		t = strings.TrimSpace(t)
		if !strings.HasSuffix(t, ")") {
			return errf("func header must end with parameter list: %q", t)
		}
		lp := matchParenBack(t, len(t)-1)
		if lp < 0 {
			return errf("unbalanced parens in func header")
		}
		name := strings.TrimSpace(t[:lp])
		var params []string
		for _, p := range strings.Split(t[lp+1:len(t)-1], ",") {
			p = strings.TrimSpace(p)
			if p != "" {
				params = append(params, strings.Fields(p)[0])
			}
		}
		fc := &FuncContract{Name: name, Params: params, Extern: kw == "extern", Iface: kw == "interface", Loops: map[string]*LoopContract{}, File: cf.Path, Line: line}
		cf.Funcs = append(cf.Funcs, fc)
		*cur = fc
		*curLoop = nil
	default:
		if *cur == nil {
			return errf("%s outside func", kw)
		}
		fc := *cur
		switch kw {
		case "requires", "ensures", "panics", "lemma":
			c, err := parseClause(text)
			if err != nil {
				return err
			}
			if kw == "lemma" {
				fc.Lemmas = append(fc.Lemmas, c)
			} else if kw == "requires" {
				fc.Requires = append(fc.Requires, c)
			} else if kw == "ensures" {
				fc.Ensures = append(fc.Ensures, c)
			} else {
				fc.Panics = append(fc.Panics, c)
			}
			*curLoop = nil
		case "modifies":
			for _, part := range splitTop(text, ',') {
				part = strings.TrimSpace(part)
				if part == "" || part == "nothing" {
					continue
				}
				if *curLoop != nil {
					(*curLoop).Modifies = append((*curLoop).Modifies, part)
					continue
				}
				fc.ModSrc = append(fc.ModSrc, part)
			}
		case "pure":
			fc.Pure = true
		case "inline":
			fc.Inline = true
		case "trusted":
			fc.Trusted = true
		case "nopanic":
			fc.NoPanic = true
		case "logged":
			fc.Logged = true
		case "fresh":
			fc.Fresh = true
		case "calls":
			fc.CallsDecl = append(fc.CallsDecl, strings.Fields(strings.ReplaceAll(text, ",", " "))...)
		case "maypanic":
			fc.MayPanic = true
		case "owns":
			fc.Owns = append(fc.Owns, text)
		case "refines":
			fc.Refines = append(fc.Refines, text)
		case "props":
			fc.Props = append(fc.Props, strings.Fields(strings.ReplaceAll(text, ",", " "))...)
		case "loop":
			lc := &LoopContract{Key: strings.TrimSpace(text)}
			fc.Loops[lc.Key] = lc
			*curLoop = lc
		case "invariant", "decreases":
			if *curLoop == nil {
				return errf("%s outside loop", kw)
			}
			c, err := parseClause(text)
			if err != nil {
				return err
			}
			if kw == "invariant" {
				(*curLoop).Invariants = append((*curLoop).Invariants, c)
			} else {
				(*curLoop).Decreases = append((*curLoop).Decreases, c)
			}
		case "assert", "assume":
			// assert <anchor> : expr
			idx := strings.Index(text, ":")
			for idx >= 0 && idx+1 < len(text) && text[idx+1] == ':' { // skip '::'
				j := strings.Index(text[idx+2:], ":")
				if j < 0 {
					idx = -1
					break
				}
				idx = idx + 2 + j
			}
			if idx < 0 {
				return errf("assert needs 'anchor: expr'")
			}
			c, err := parseClause(text[idx+1:])
			if err != nil {
				return err
			}
			fc.Asserts = append(fc.Asserts, AnchorAssert{Anchor: strings.TrimSpace(text[:idx]), Assume: kw == "assume", C: c})
		default:
			return errf("unexpected %s", kw)
		}
	}
	return nil
}

func matchParen(s string, lp int) int {
	d := 0
	for i := lp; i < len(s); i++ {
		switch s[i] {
		case '(':
			d++
		case ')':
			d--
			if d == 0 {
				return i
			}
		}
	}
	return -1
}

func matchParenBack(s string, rp int) int {
	d := 0
	for i := rp; i >= 0; i-- {
		switch s[i] {
		case ')':
			d++
		case '(':
			d--
			if d == 0 {
				return i
			}
		}
	}
	return -1
}

func splitTop(s string, sep byte) []string {
	var out []string
	d := 0
	last := 0
	inStr := false
	for i := 0; i < len(s); i++ {
		c := s[i]
		if c == '"' {
			inStr = !inStr
		}
		if inStr {
			continue
		}
		switch c {
		case '(', '[', '{':
			d++
		case ')', ']', '}':
			d--
		default:
			if c == sep && d == 0 {
				out = append(out, s[last:i])
				last = i + 1
			}
		}
	}
	out = append(out, s[last:])
	return out
}

// parseBinders parses "a, b T, c U" (Go style: names share the following type) or "a T, b U".
func parseBinders(s string) ([]Binder, error) {
	var out []Binder
	parts := splitTop(s, ',')
	var pendingNames []string
	for _, p := range parts {
		p = strings.TrimSpace(p)
		if p == "" {
			continue
		}
		i := strings.IndexAny(p, " \t")
		if i < 0 {
			pendingNames = append(pendingNames, p)
			continue
		}
		name, typ := p[:i], strings.TrimSpace(p[i:])
		for _, n := range pendingNames {
			out = append(out, Binder{n, typ})
		}
		pendingNames = nil
		out = append(out, Binder{name, typ})
	}
	for _, n := range pendingNames {
		out = append(out, Binder{n, ""})
	}
	return out, nil
}

// ---------- expression parser

type tok struct {
	kind string // id, int, str, op, eof
	text string
}

type exprParser struct {
	toks []tok
	pos  int
}

func lexExpr(s string) ([]tok, error) {
	var toks []tok
	i := 0
	for i < len(s) {
		c := rune(s[i])
		switch {
		case unicode.IsSpace(c):
			i++
		case unicode.IsLetter(c) || c == '_':
			j := i
			for j < len(s) && (unicode.IsLetter(rune(s[j])) || unicode.IsDigit(rune(s[j])) || s[j] == '_' || s[j] == '$') {
				j++
			}
			if j+1 < len(s) && s[j] == '#' && unicode.IsDigit(rune(s[j+1])) {
				j++
				for j < len(s) && unicode.IsDigit(rune(s[j])) {
					j++
				}
			}
			toks = append(toks, tok{"id", s[i:j]})
			i = j
		case unicode.IsDigit(c):
			j := i
			for j < len(s) && (unicode.IsDigit(rune(s[j])) || s[j] == 'x' || (s[j] >= 'a' && s[j] <= 'f') || (s[j] >= 'A' && s[j] <= 'F')) {
				j++
			}
			toks = append(toks, tok{"int", s[i:j]})
			i = j
		case c == '"':
			j := i + 1
			for j < len(s) && s[j] != '"' {
				if s[j] == '\\' {
					j++
				}
				j++
			}
			if j >= len(s) {
				return nil, fmt.Errorf("unterminated string")
			}
			toks = append(toks, tok{"str", s[i+1 : j]})
			i = j + 1
		default:
			ops := []string{"<==>", "==>", "::", "&&", "||", "==", "!=", "<=", ">=", "&^", "<<", ">>"}
			matched := false
			for _, op := range ops {
				if strings.HasPrefix(s[i:], op) {
					toks = append(toks, tok{"op", op})
					i += len(op)
					matched = true
					break
				}
			}
			if !matched {
				if strings.ContainsRune("+-*/%&|!<>()[]{},.:#", c) {
					toks = append(toks, tok{"op", string(c)})
					i++
				} else {
					return nil, fmt.Errorf("unexpected character %q", c)
				}
			}
		}
	}
	toks = append(toks, tok{"eof", ""})
	return toks, nil
}

func ParseExpr(s string) (Expr, error) {
	toks, err := lexExpr(s)
	if err != nil {
		return nil, err
	}
	p := &exprParser{toks: toks}
	e, err := p.parseTop()
	if err != nil {
		return nil, err
	}
	if p.peek().kind != "eof" {
		return nil, fmt.Errorf("unexpected %q", p.peek().text)
	}
	return e, nil
}

func (p *exprParser) peek() tok { return p.toks[p.pos] }
func (p *exprParser) next() tok  { t := p.toks[p.pos]; p.pos++; return t }
func (p *exprParser) isOp(op string) bool {
	t := p.peek()
	return t.kind == "op" && t.text == op
}
func (p *exprParser) isID(id string) bool {
	t := p.peek()
	return t.kind == "id" && t.text == id
}
func (p *exprParser) expectOp(op string) error {
	if !p.isOp(op) {
		return fmt.Errorf("expected %q, got %q", op, p.peek().text)
	}
	p.pos++
	return nil
}

func (p *exprParser) parseTop() (Expr, error) {
	return p.parseIff()
}

func (p *exprParser) parseQuantOrIte() (Expr, bool, error) {
	if p.isID("forall") || p.isID("exists") {
		fa := p.next().text == "forall"
		// binders up to '::'
		var vars []Binder
		for {
			t := p.next()
			if t.kind != "id" {
				return nil, true, fmt.Errorf("binder name expected, got %q", t.text)
			}
			b := Binder{Name: t.text}
			// optional type: tokens up to ',' or '::'
			var ty strings.Builder
			for !p.isOp(",") && !p.isOp("::") && p.peek().kind != "eof" {
				ty.WriteString(p.next().text)
			}
			b.Type = ty.String()
			vars = append(vars, b)
			if p.isOp(",") {
				p.next()
				continue
			}
			break
		}
		if err := p.expectOp("::"); err != nil {
			return nil, true, err
		}
		// Go-style sharing of types: "a, b T" -> a gets T
		for i := len(vars) - 2; i >= 0; i-- {
			if vars[i].Type == "" {
				vars[i].Type = vars[i+1].Type
			}
		}
		body, err := p.parseIff()
		if err != nil {
			return nil, true, err
		}
		return &EQuant{Forall: fa, Vars: vars, Body: body}, true, nil
	}
	if p.isID("if") {
		p.next()
		c, err := p.parseIff()
		if err != nil {
			return nil, true, err
		}
		if !p.isID("then") {
			return nil, true, fmt.Errorf("expected then")
		}
		p.next()
		a, err := p.parseIff()
		if err != nil {
			return nil, true, err
		}
		if !p.isID("else") {
			return nil, true, fmt.Errorf("expected else")
		}
		p.next()
		b, err := p.parseIff()
		if err != nil {
			return nil, true, err
		}
		return &EIte{c, a, b}, true, nil
	}
	return nil, false, nil
}

func (p *exprParser) parseIff() (Expr, error) {
	x, err := p.parseImplies()
	if err != nil {
		return nil, err
	}
	for p.isOp("<==>") {
		p.next()
		y, err := p.parseImplies()
		if err != nil {
			return nil, err
		}
		x = &EBinary{"<==>", x, y}
	}
	return x, nil
}

func (p *exprParser) parseImplies() (Expr, error) {
	x, err := p.parseOr()
	if err != nil {
		return nil, err
	}
	if p.isOp("==>") {
		p.next()
		y, err := p.parseImplies()
		if err != nil {
			return nil, err
		}
		return &EBinary{"==>", x, y}, nil
	}
	return x, nil
}

func (p *exprParser) parseOr() (Expr, error) {
	x, err := p.parseAnd()
	if err != nil {
		return nil, err
	}
	for p.isOp("||") {
		p.next()
		y, err := p.parseAnd()
		if err != nil {
			return nil, err
		}
		x = &EBinary{"||", x, y}
	}
	return x, nil
}

func (p *exprParser) parseAnd() (Expr, error) {
	x, err := p.parseCmp()
	if err != nil {
		return nil, err
	}
	for p.isOp("&&") {
		p.next()
		y, err := p.parseCmp()
		if err != nil {
			return nil, err
		}
		x = &EBinary{"&&", x, y}
	}
	return x, nil
}

func (p *exprParser) parseCmp() (Expr, error) {
	x, err := p.parseAdd()
	if err != nil {
		return nil, err
	}
	for {
		t := p.peek()
		if t.kind == "op" && (t.text == "==" || t.text == "!=" || t.text == "<" || t.text == "<=" || t.text == ">" || t.text == ">=") {
			p.next()
			y, err := p.parseAdd()
			if err != nil {
				return nil, err
			}
			x = &EBinary{t.text, x, y}
			continue
		}
		return x, nil
	}
}

func (p *exprParser) parseAdd() (Expr, error) {
	x, err := p.parseMul()
	if err != nil {
		return nil, err
	}
	for {
		t := p.peek()
		if t.kind == "op" && (t.text == "+" || t.text == "-" || t.text == "|") {
			p.next()
			y, err := p.parseMul()
			if err != nil {
				return nil, err
			}
			x = &EBinary{t.text, x, y}
			continue
		}
		return x, nil
	}
}

func (p *exprParser) parseMul() (Expr, error) {
	x, err := p.parseUnary()
	if err != nil {
		return nil, err
	}
	for {
		t := p.peek()
		if t.kind == "op" && (t.text == "*" || t.text == "/" || t.text == "%" || t.text == "&" || t.text == "&^" || t.text == "<<") {
			p.next()
			y, err := p.parseUnary()
			if err != nil {
				return nil, err
			}
			x = &EBinary{t.text, x, y}
			continue
		}
		return x, nil
	}
}

func (p *exprParser) parseUnary() (Expr, error) {
	if e, ok, err := p.parseQuantOrIte(); ok {
		return e, err
	}
	if p.isOp("!") || p.isOp("-") || p.isOp("*") {
		op := p.next().text
		x, err := p.parseUnary()
		if err != nil {
			return nil, err
		}
		return &EUnary{op, x}, nil
	}
	return p.parsePostfix()
}

func (p *exprParser) parsePostfix() (Expr, error) {
	x, err := p.parsePrimary()
	if err != nil {
		return nil, err
	}
	for {
		switch {
		case p.isOp("."):
			p.next()
			t := p.next()
			if t.kind != "id" && t.kind != "int" {
				return nil, fmt.Errorf("selector expected after '.'")
			}
			x = &ESel{x, t.text}
		case p.isOp("["):
			p.next()
			i, err := p.parseTop()
			if err != nil {
				return nil, err
			}
			if err := p.expectOp("]"); err != nil {
				return nil, err
			}
			x = &EIndex{x, i}
		case p.isOp("("):
			p.next()
			var args []Expr
			for !p.isOp(")") {
				a, err := p.parseTop()
				if err != nil {
					return nil, err
				}
				args = append(args, a)
				if p.isOp(",") {
					p.next()
				} else {
					break
				}
			}
			if err := p.expectOp(")"); err != nil {
				return nil, err
			}
			x = &ECall{x, args}
		default:
			return x, nil
		}
	}
}

func (p *exprParser) parsePrimary() (Expr, error) {
	t := p.next()
	switch t.kind {
	case "int":
		return &EInt{t.text}, nil
	case "str":
		return &EStr{t.text}, nil
	case "id":
		switch t.text {
		case "true":
			return &EBool{true}, nil
		case "false":
			return &EBool{false}, nil
		case "nil":
			return &ENil{}, nil
		case "old":
			if err := p.expectOp("("); err != nil {
				return nil, err
			}
			x, err := p.parseTop()
			if err != nil {
				return nil, err
			}
			if err := p.expectOp(")"); err != nil {
				return nil, err
			}
			return &EOld{x}, nil
		case "type":
			if p.isOp("(") {
				// type(T): collect raw tokens until matching ')'
				p.next()
				depth := 1
				var b strings.Builder
				for depth > 0 {
					tt := p.next()
					if tt.kind == "eof" {
						return nil, fmt.Errorf("unterminated type()")
					}
					if tt.kind == "op" && tt.text == "(" {
						depth++
					}
					if tt.kind == "op" && tt.text == ")" {
						depth--
						if depth == 0 {
							break
						}
					}
					b.WriteString(tt.text)
				}
				return &EType{b.String()}, nil
			}
		}
		return &EIdent{t.text}, nil
	case "op":
		if t.text == "(" {
			x, err := p.parseTop()
			if err != nil {
				return nil, err
			}
			if err := p.expectOp(")"); err != nil {
				return nil, err
			}
			return x, nil
		}
	}
	return nil, fmt.Errorf("unexpected token %q", t.text)
}

// usesLog reports whether an expression refers to the call log of the current activation.
func usesLog(e Expr) bool {
	switch e := e.(type) {
	case *ECall:
		if id, ok := e.Fun.(*EIdent); ok && (id.Name == "called" || id.Name == "lastret" || id.Name == "lastarg") {
			return true
		}
		if usesLog(e.Fun) {
			return true
		}
		for _, a := range e.Args {
			if usesLog(a) {
				return true
			}
		}
	case *EUnary:
		return usesLog(e.X)
	case *EBinary:
		return usesLog(e.X) || usesLog(e.Y)
	case *ESel:
		return usesLog(e.X)
	case *EIndex:
		return usesLog(e.X) || usesLog(e.I)
	case *EQuant:
		return usesLog(e.Body)
	case *EIte:
		return usesLog(e.C) || usesLog(e.A) || usesLog(e.B)
	case *EOld:
		return usesLog(e.X)
	}
	return false
}
