package main

import (
	"flag"
	"fmt"
	"os"
	"sort"
	"strings"
	"time"
)

func main() {
	repo := flag.String("repo", "/repo", "repository directory")
	specs := flag.String("specs", "/verif/specs", "directory with dependency specs")
	fnFilter := flag.String("func", "", "comma-separated substrings of function names to verify")
	out := flag.String("out", "/verif/out/smt", "directory for SMT files")
	timeout := flag.Duration("timeout", 10*time.Second, "per-obligation solver timeout")
	verbose := flag.Bool("v", false, "verbose")
	dump := flag.Bool("dump", false, "dump failing queries")
	prop := flag.String("property", "", "property id: run the property check (see check.go)")
	tier := flag.String("tier", "quick", "quick|thorough")
	replay := flag.String("replay", "", "replay file of a recorded violation")
	flag.Parse()
	if *replay != "" {
		os.Exit(runReplay(*repo, *replay))
	}
	if *prop != "" {
		os.Exit(runProperty(*repo, *specs, *prop, *tier, *out))
	}
	p, err := LoadProg(*repo, []string{*specs})
	if err != nil {
		fmt.Fprintln(os.Stderr, "load:", err)
		os.Exit(2)
	}
	for _, e := range p.BindErrs {
		fmt.Println("BIND ERROR:", e)
	}
	var names []string
	for n := range p.Funcs {
		names = append(names, n)
	}
	sort.Strings(names)
	solver := NewSolver(*out, *timeout, false)
	filters := strings.Split(*fnFilter, ",")
	for _, n := range names {
		fn := p.Funcs[n]
		if fn.Parent() != nil {
			continue
		}
		match := *fnFilter == ""
		for _, f := range filters {
			if f != "" && strings.Contains(n, f) {
				match = true
			}
		}
		if !match {
			continue
		}
		if *fnFilter == "" && p.Contracts[n] == nil {
			continue
		}
		x := NewExec(p, fn)
		t0 := time.Now()
		x.Run()
		gen := time.Since(t0)
		t0 = time.Now()
		solver.SolveAll(x.Obls, 16)
		fmt.Printf("== %s: %d obligations (%d states, gen %.2fs, solve %.2fs)\n", x.short, len(x.Obls), x.nStates, gen.Seconds(), time.Since(t0).Seconds())
		for _, u := range x.Unsupported {
			fmt.Println("   UNSUPPORTED:", u)
		}
		agg := aggregate(x.Obls)
		for _, a := range agg {
			if a.ok && !*verbose {
				continue
			}
			fmt.Printf("   %-8s %s  (%d instances, %s) %s\n", a.status, a.name, a.n, a.solver, a.pos)
			if !a.ok && *dump && a.bad != nil {
				fmt.Println("      clause:", a.bad.Clause)
				fmt.Println("      trace:", strings.Join(a.bad.Trace, " "))
				f := fmt.Sprintf("%s/fail_%s.smt2", *out, sanitize(a.name))
				os.WriteFile(f, []byte(a.bad.Query(true)), 0o644)
				fmt.Println("      query:", f)
			}
		}
		for e := range x.DefaultExterns {
			if *verbose {
				fmt.Println("   default-extern:", e)
			}
		}
	}
}

type aggRes struct {
	name   string
	n      int
	ok     bool
	status string
	solver string
	bad    *Obligation
	pos    string
}

func aggregate(obls []*Obligation) []aggRes {
	m := map[string]*aggRes{}
	var order []string
	// smoke sites: reachable if any instance is not refuted
	smokeAlive := map[string]bool{}
	for _, o := range obls {
		if o.Smoke && o.Status != "unsat" {
			smokeAlive[o.Name] = true
		}
	}
	anyReturnAlive := false
	hasReturnSmoke := false
	for _, o := range obls {
		if o.Smoke && (strings.Contains(o.Name, "#smoke[return#") || strings.Contains(o.Name, "#smoke[panic")) {
			hasReturnSmoke = true
			if smokeAlive[o.Name] {
				anyReturnAlive = true
			}
		}
	}
	for _, o := range obls {
		if o.Smoke {
			alive := smokeAlive[o.Name]
			switch {
			case strings.Contains(o.Name, "#smoke[return#") || strings.Contains(o.Name, "#smoke[panic"):
				// dead returns are dead code, not vacuity, unless every exit is dead
				alive = alive || anyReturnAlive || !hasReturnSmoke
			case strings.Contains(o.Name, "#smoke[after "):
				before := strings.Replace(o.Name, "#smoke[after ", "#smoke[before ", 1)
				alive = alive || !smokeAlive[before]
			case strings.Contains(o.Name, "#smoke[before "):
				alive = true
			}
			a := m[o.Name]
			if a == nil {
				a = &aggRes{name: o.Name, ok: alive, status: "ok", pos: o.Pos, solver: o.Solver}
				if !alive {
					a.status = "VACUOUS"
					a.bad = o
				}
				m[o.Name] = a
				order = append(order, o.Name)
			}
			a.n++
			continue
		}
		a := m[o.Name]
		if a == nil {
			a = &aggRes{name: o.Name, ok: true, status: "ok", pos: o.Pos}
			m[o.Name] = a
			order = append(order, o.Name)
		}
		a.n++
		if a.solver == "" {
			a.solver = o.Solver
		}
		good := o.Status == "unsat"
		if o.Smoke {
			good = o.Status != "unsat"
		}
		if !good && a.ok {
			a.ok = false
			a.status = "FAIL:" + o.Status
			if o.Smoke {
				a.status = "VACUOUS"
			}
			a.bad = o
			a.solver = o.Solver
			a.pos = o.Pos
		}
	}
	var out []aggRes
	for _, n := range order {
		out = append(out, *m[n])
	}
	return out
}
