package main

import (
	"fmt"
	"go/types"
	"strings"
)

// TypeMap maps Go types to SMT sorts for one verification context.
type TypeMap struct {
	d       *Decls
	names   map[string]string // type string -> sort name
	structs map[string]*types.Struct
	tags    map[string]int // dynamic type tags
	tagList []types.Type
}

func NewTypeMap(d *Decls) *TypeMap {
	return &TypeMap{d: d, names: map[string]string{}, structs: map[string]*types.Struct{}, tags: map[string]int{}}
}

func typeKey(t types.Type) string { return types.TypeString(t, nil) }

// special named types
func isNamed(t types.Type, pkg, name string) bool {
	t = types.Unalias(t)
	n, ok := t.(*types.Named)
	if !ok {
		return false
	}
	o := n.Obj()
	return o.Name() == name && o.Pkg() != nil && o.Pkg().Path() == pkg
}

func isTime(t types.Type) bool     { return isNamed(t, "time", "Time") }
func isKeyUsage(t types.Type) bool { return isNamed(t, "crypto/x509", "KeyUsage") }

var opaqueNamed = map[string]bool{
	"sync.WaitGroup": true, "sync.Mutex": true, "sync.RWMutex": true, "sync.Map": true, "sync.Once": true,
	"math/big.Int": true, "crypto/elliptic.CurveParams": false,
}

// Sort returns the SMT sort for Go type t, declaring datatypes as needed.
func (tm *TypeMap) Sort(t types.Type) string {
	t = types.Unalias(t)
	if isTime(t) {
		return SInt
	}
	if isKeyUsage(t) {
		return SBV
	}
	switch u := t.Underlying().(type) {
	case *types.Basic:
		switch {
		case u.Info()&types.IsBoolean != 0:
			return SBool
		case u.Info()&types.IsInteger != 0:
			return SInt
		case u.Info()&types.IsString != 0:
			return SStr
		case u.Info()&types.IsFloat != 0:
			return "Real"
		case u.Kind() == types.UnsafePointer:
			return SInt
		case u.Kind() == types.UntypedNil:
			return SInt
		}
		return SInt
	case *types.Pointer, *types.Map, *types.Chan, *types.Signature:
		return SInt
	case *types.Slice:
		return SSlice
	case *types.Interface:
		return SIface
	case *types.Struct:
		return tm.structSort(t, u)
	case *types.Array:
		// arrays as values: modelled as SMT arrays Int -> elem
		return fmt.Sprintf("(Array Int %s)", tm.Sort(u.Elem()))
	case *types.Tuple:
		return "Tuple"
	}
	return SInt
}

func (tm *TypeMap) structName(t types.Type) string {
	key := typeKey(t)
	if n, ok := tm.names[key]; ok {
		return n
	}
	var base string
	if n, ok := types.Unalias(t).(*types.Named); ok {
		o := n.Obj()
		if o.Pkg() != nil {
			p := o.Pkg().Path()
			if i := strings.LastIndex(p, "/"); i >= 0 {
				// keep two last path elements for disambiguation of internal/crl vs revocation/crl
				q := p[:i]
				if j := strings.LastIndex(q, "/"); j >= 0 {
					q = q[j+1:]
				}
				p = q + "." + p[i+1:]
			}
			base = sanitize(p + "." + o.Name())
		} else {
			base = sanitize(o.Name())
		}
		if n.TypeArgs() != nil && n.TypeArgs().Len() > 0 {
			base += "_" + sanitize(types.TypeString(n.TypeArgs().At(0), nil))
		}
	} else {
		base = fmt.Sprintf("anon%d", len(tm.names))
	}
	// ensure unique
	name := "T." + base
	for used := true; used; {
		used = false
		for _, v := range tm.names {
			if v == name {
				used = true
				name += "_"
				break
			}
		}
	}
	tm.names[key] = name
	return name
}

func (tm *TypeMap) structSort(t types.Type, st *types.Struct) string {
	key := typeKey(t)
	if n, ok := tm.names[key]; ok && tm.d.Has("dt:"+n) {
		return n
	}
	name := tm.structName(t)
	if n, ok := types.Unalias(t).(*types.Named); ok {
		o := n.Obj()
		if o.Pkg() != nil && opaqueNamed[o.Pkg().Path()+"."+o.Name()] {
			tm.d.Add("dt:"+name, fmt.Sprintf("(declare-sort %s 0)", name))
			return name
		}
	}
	tm.structs[name] = st
	if st.NumFields() == 0 {
		tm.d.Add("dt:"+name, fmt.Sprintf("(declare-datatypes ((%s 0)) (((mk.%s))))", name, name))
		return name
	}
	// mark as in-progress to break recursion (Go structs cannot contain themselves by value)
	var fs []string
	for i := 0; i < st.NumFields(); i++ {
		selIndex.Store(tm.FieldSel(name, st, i), i)
		fs = append(fs, fmt.Sprintf("(%s %s)", tm.FieldSel(name, st, i), tm.Sort(st.Field(i).Type())))
	}
	tm.d.Add("dt:"+name, fmt.Sprintf("(declare-datatypes ((%s 0)) (((mk.%s %s))))", name, name, strings.Join(fs, " ")))
	return name
}

func (tm *TypeMap) IsOpaqueStruct(t types.Type) bool {
	if n, ok := types.Unalias(t).(*types.Named); ok {
		o := n.Obj()
		if o.Pkg() != nil && opaqueNamed[o.Pkg().Path()+"."+o.Name()] {
			return true
		}
	}
	return false
}

func (tm *TypeMap) FieldSel(structSort string, st *types.Struct, i int) string {
	return fmt.Sprintf("%s.%s", structSort, sanitize(st.Field(i).Name()))
}

// Zero returns the zero value term of Go type t.
func (tm *TypeMap) Zero(t types.Type) string {
	t = types.Unalias(t)
	if isTime(t) {
		return "0"
	}
	if isKeyUsage(t) {
		return "#x00000000"
	}
	switch u := t.Underlying().(type) {
	case *types.Basic:
		switch {
		case u.Info()&types.IsBoolean != 0:
			return "false"
		case u.Info()&types.IsString != 0:
			return "str_empty"
		case u.Info()&types.IsFloat != 0:
			return "0.0"
		}
		return "0"
	case *types.Slice:
		return "(mk_slice 0 0 0)"
	case *types.Interface:
		return "(mk_iface 0 any_nil)"
	case *types.Struct:
		s := tm.structSort(t, u)
		if tm.IsOpaqueStruct(t) {
			return tm.d.Const("zero."+s, s)
		}
		if u.NumFields() == 0 {
			return "mk." + s
		}
		var fs []string
		for i := 0; i < u.NumFields(); i++ {
			fs = append(fs, tm.Zero(u.Field(i).Type()))
		}
		return app("mk."+s, fs...)
	case *types.Array:
		return tm.ConstArray(tm.Sort(u.Elem()), tm.Zero(u.Elem()))
	}
	return "0"
}

// Tag returns the dynamic type tag for concrete type t (positive integer).
func (tm *TypeMap) Tag(t types.Type) int {
	k := typeKey(types.Unalias(t))
	if id, ok := tm.tags[k]; ok {
		return id
	}
	id := len(tm.tags) + 1
	tm.tags[k] = id
	tm.tagList = append(tm.tagList, t)
	return id
}

// Box / Unbox functions between sort s and Any.
func (tm *TypeMap) Box(sort, v string) string {
	f := "box." + sortName(sort)
	tm.d.Fun(f, []string{sort}, SAny)
	u := "unbox." + sortName(sort)
	tm.d.Fun(u, []string{SAny}, sort)
	t := app(f, v)
	tm.d.Axiom(fmt.Sprintf("(forall ((x!q %s)) (! (= (%s (%s x!q)) x!q) :pattern ((%s x!q))))", sort, u, f, f))
	return t
}

func (tm *TypeMap) Unbox(sort, a string) string {
	f := "box." + sortName(sort)
	tm.d.Fun(f, []string{sort}, SAny)
	u := "unbox." + sortName(sort)
	tm.d.Fun(u, []string{SAny}, sort)
	return app(u, a)
}

func sortName(s string) string {
	return sanitize(strings.NewReplacer("(", "", ")", "", " ", "_").Replace(s))
}

// heap array names
func (tm *TypeMap) FieldArray(structT types.Type, st *types.Struct, i int) (name, valSort string) {
	sn := tm.structName(structT)
	valSort = tm.Sort(st.Field(i).Type())
	return fmt.Sprintf("H.%s.%s", sn[2:], sanitize(st.Field(i).Name())), valSort
}

// Element and cell arrays are keyed by Go type (type-based alias analysis): key = "<sort>#<type name>".
func (tm *TypeMap) ElemArray(key string) string { return "E." + keyName(key) }
func (tm *TypeMap) CellArray(key string) string { return "C." + keyName(key) }

func keyName(key string) string {
	if i := strings.Index(key, "#"); i >= 0 {
		return key[i+1:]
	}
	return sortName(key)
}

// ksort extracts the SMT sort from an array key.
func ksort(key string) string {
	if i := strings.Index(key, "#"); i >= 0 {
		return key[:i]
	}
	return key
}

// Key returns the array key of Go type t.
func (tm *TypeMap) Key(t types.Type) string {
	if it, ok := types.Unalias(t).(*types.Interface); ok && it.NumMethods() == 0 {
		return SIface + "#any"
	}
	return tm.Sort(t) + "#" + sanitize(types.TypeString(types.Unalias(t), nil))
}
func (tm *TypeMap) MapHas(k, v string) string        { return "MH." + sortName(k) + "." + sortName(v) }
func (tm *TypeMap) MapVal(k, v string) string        { return "MV." + sortName(k) + "." + sortName(v) }

// ConstArray returns the array whose every element is zero. cvc5 only accepts literal values in `as const`, so for
// sorts whose zero is an uninterpreted constant (Str, Any, Iface, structs containing them) a named array with a
// quantified definition is used instead.
func (tm *TypeMap) ConstArray(sort, zero string) string {
	literal := sort == SInt || sort == SBool || sort == SSlice || sort == SBV || sort == "Real"
	if literal {
		return fmt.Sprintf("((as const (Array Int %s)) %s)", sort, zero)
	}
	name := "K." + sortName(sort)
	tm.d.Const(name, fmt.Sprintf("(Array Int %s)", sort))
	tm.d.Axiom(fmt.Sprintf("(forall ((i!q Int)) (! (= (select %s i!q) %s) :pattern ((select %s i!q))))", name, zero, name))
	return name
}
