package main

import (
	"os"
	"fmt"
	"go/token"
	"go/types"
	"sort"
	"strings"

	"golang.org/x/tools/go/ssa"
)

// localEnv resolves names of local variables (Allocs by Comment) of all active frames, innermost first.
func (x *Exec) localEnv(st *State) *Env {
	env := &Env{x: x, st: st, old: x.init, vars: map[string]Value{}, cf: x.CF, alias: x.Alias}
	env.locals = func(name string) (Value, bool) {
		want := name
		ord := -1
		if i := strings.Index(name, "#"); i >= 0 {
			fmt.Sscanf(name[i+1:], "%d", &ord)
			want = name[:i]
		}
		for fi := len(st.Frames) - 1; fi >= 0; fi-- {
			fr := st.Frames[fi]
			// candidates: allocs with that comment that have been executed in this frame
			var cands []*ssa.Alloc
			for v := range fr.Regs {
				if a, ok := v.(*ssa.Alloc); ok && a.Comment == want {
					cands = append(cands, a)
				}
			}
			if len(cands) == 0 {
				// free variables of closures
				for _, fv := range fr.Fn.FreeVars {
					if fv.Name() == want {
						if pv, ok := fr.Regs[fv]; ok {
							return x.load(st, pv, false), true
						}
					}
				}
				continue
			}
			sort.Slice(cands, func(i, j int) bool { return cands[i].Pos() < cands[j].Pos() })
			var a *ssa.Alloc
			if ord >= 0 {
				// ordinal among all allocs of the function with that name, in source order
				var all []*ssa.Alloc
				for _, b := range fr.Fn.Blocks {
					for _, ins := range b.Instrs {
						if al, ok := ins.(*ssa.Alloc); ok && al.Comment == want {
							all = append(all, al)
						}
					}
				}
				sort.Slice(all, func(i, j int) bool { return all[i].Pos() < all[j].Pos() })
				if ord < len(all) {
					a = all[ord]
				}
				if a == nil {
					return Value{}, false
				}
				if _, ok := fr.Regs[a]; !ok {
					return Value{}, false
				}
			} else {
				a = cands[len(cands)-1] // innermost/latest declared
			}
			return x.load(st, fr.Regs[a], false), true
		}
		return Value{}, false
	}
	// parameters (entry values) remain available as old(name) through vars only if not shadowed by local cell
	for n, v := range x.params {
		env.vars["old_"+n] = v
	}
	return env
}

func (x *Exec) loopContract(fn *ssa.Function, l *Loop) *LoopContract {
	if x.FC == nil {
		return nil
	}
	return x.FC.Loops[x.loopKey(fn, l)]
}

// loopEnv: environment at a loop head: locals by name, `it` for range loops.
func (x *Exec) loopEnv(st *State, fn *ssa.Function, l *Loop) *Env {
	env := x.localEnv(st)
	fr := st.top()
	if l.RangeIdx != nil {
		if pv, ok := fr.Regs[l.RangeIdx]; ok {
			idx := x.load(st, pv, false)
			env.vars["it"] = intV(simplifyPlus1Term(idx.Term))
		}
	}
	// it#K of every enclosing/other range loop whose index cell is live
	for _, ol := range x.loopsOf(fn) {
		if ol.RangeIdx != nil {
			if pv, ok := fr.Regs[ol.RangeIdx]; ok {
				if _, live := fr.Locals[ol.RangeIdx]; live {
					idx := x.load(st, pv, false)
					env.vars["it#"+x.loopKey(fn, ol)] = intV(simplifyPlus1Term(idx.Term))
				}
			}
		}
	}
	if l.IsMapRange {
		// visited set of the iterator
		for _, ins := range l.Head.Instrs {
			if nx, ok := ins.(*ssa.Next); ok {
				if itv, ok := fr.Regs[nx.Iter]; ok && itv.Iter != nil {
					env.vars["visited"] = Value{Term: itv.Iter.Visited, Sort: fmt.Sprintf("(Array %s Bool)", itv.Iter.KSort)}
				}
			}
		}
	}
	return env
}

func simplifyPlus1Term(t string) string {
	if t == "(- 1)" {
		return "0"
	}
	return fmt.Sprintf("(+ %s 1)", t)
}

// autoInvariant: engine-supplied facts at range loop heads (checked like user invariants).
func (x *Exec) autoInvariant(st *State, fn *ssa.Function, l *Loop) string {
	fr := st.top()
	if l.RangeIdx != nil && l.RangeLen != nil {
		pv, ok1 := fr.Regs[l.RangeIdx]
		lv, ok2 := fr.Regs[l.RangeLen]
		if ok1 && ok2 {
			idx := x.load(st, pv, false)
			return fmt.Sprintf("(and (<= (- 1) %s) (< %s (ite (> %s 0) %s 0)))", idx.Term, idx.Term, lv.Term, lv.Term)
		}
	}
	return "true"
}

func (x *Exec) loopEntry(st *State, fn *ssa.Function, l *Loop) bool {
	key := x.loopKey(fn, l)
	if ghostInt(st, "go.pendingAdds") != 0 {
		x.emit(st, "go", "loop"+key+":unmatched-add", "false", "wg.Add without a spawned goroutine at a loop head")
	}
	lc := x.loopContract(fn, l)
	env := x.loopEnv(st, fn, l)
	if lc != nil {
		for ci, c := range lc.Invariants {
			if x.DropInv[c.Line] {
				continue
			}
			g := x.evalBool(env, c.E, c)
			lab := c.Label
			if lab == "" {
				lab = fmt.Sprintf("%d", ci)
			}
			x.emit(st, "loop"+key+".entry", lab, g, c.Src)
		}
	}
	if ai := x.autoInvariant(st, fn, l); ai != "true" {
		x.emit(st, "loop"+key+".entry", "auto-range", ai, "range index within bounds")
	}
	// havoc
	x.havocLoop(st, fn, l, lc)
	env = x.loopEnv(st, fn, l)
	if ai := x.autoInvariant(st, fn, l); ai != "true" {
		st.Assume(ai)
	}
	if lc != nil {
		for _, c := range lc.Invariants {
			if x.DropInv[c.Line] {
				continue
			}
			st.Assume(x.evalBool(env, c.E, c))
		}
		// remember decreases measure
		for di, c := range lc.Decreases {
			env.clause = c
			v := env.eval(c.E)
			st.Ghost[fmt.Sprintf("dec:%s:%s:%d", fn.Name(), key, di)] = v.Term
		}
	}
	x.emitSmoke(st, "loop"+key+".body")
	return true
}

func (x *Exec) loopBackEdge(st *State, fn *ssa.Function, l *Loop) {
	key := x.loopKey(fn, l)
	if ghostInt(st, "go.pendingAdds") != 0 {
		x.emit(st, "go", "loop"+key+":unmatched-add", "false", "wg.Add without a spawned goroutine at a loop back edge")
	}
	lc := x.loopContract(fn, l)
	env := x.loopEnv(st, fn, l)
	if lc != nil {
		for ci, c := range lc.Invariants {
			if x.DropInv[c.Line] {
				continue
			}
			g := x.evalBool(env, c.E, c)
			lab := c.Label
			if lab == "" {
				lab = fmt.Sprintf("%d", ci)
			}
			x.emit(st, "loop"+key+".preserve", lab, g, c.Src)
		}
		for di, c := range lc.Decreases {
			env.clause = c
			v := env.eval(c.E)
			old := st.Ghost[fmt.Sprintf("dec:%s:%s:%d", fn.Name(), key, di)]
			x.emit(st, "loop"+key+".decreases", fmt.Sprintf("%d", di), fmt.Sprintf("(and (>= %s 0) (< %s %s))", old, v.Term, old), c.Src)
		}
	}
	if ai := x.autoInvariant(st, fn, l); ai != "true" {
		x.emit(st, "loop"+key+".preserve", "auto-range", ai, "range index within bounds")
	}
	if lc == nil || len(lc.Decreases) == 0 {
		if l.RangeIdx == nil && !l.IsMapRange {
			x.emit(st, "loop"+key+".decreases", "missing", "false", "non-range loop needs a decreases clause")
		}
	}
}

// havocLoop forgets everything the loop body may assign.
func (x *Exec) havocLoop(st *State, fn *ssa.Function, l *Loop, lc *LoopContract) {
	fr := st.top()
	cells := map[*ssa.Alloc]bool{}
	direct := map[string]string{}
	arrays := direct // events redirect this variable (see ev)
	evArrays := map[string]string{}
	precise := map[string][]*ssa.Alloc{}
	impreciseEv := map[string]bool{}
	ev := func(alloc *ssa.Alloc, f func()) {
		tmp := map[string]string{}
		saved := arrays
		arrays = tmp
		f()
		arrays = saved
		for k, v := range tmp {
			evArrays[k] = v
			if alloc != nil {
				precise[k] = append(precise[k], alloc)
			} else {
				impreciseEv[k] = true
			}
		}
	}
	heapAllocRoot := func(v ssa.Value) *ssa.Alloc {
		for {
			switch u := v.(type) {
			case *ssa.FieldAddr:
				v = u.X
				continue
			case *ssa.MakeInterface:
				v = u.X
				continue
			case *ssa.IndexAddr:
				if _, ok := types.Unalias(u.X.Type()).Underlying().(*types.Pointer); ok {
					v = u.X // element of an array object (e.g. a varargs or slice-literal backing array)
					continue
				}
			case *ssa.Alloc:
				if u.Heap {
					return u
				}
			}
			return nil
		}
	}
	fvBind := map[*ssa.FreeVar]Value{}
	preciseCells := map[string][]string{} // cell array|sort -> references to havoc
	type mapRow struct {
		alloc  *ssa.Alloc
		ks, vs string
	}
	var mapRows []mapRow
	allHeap := false
	hasGo, hasSend, hasMayPanic := false, false, false
	unknownCall := false // a call through a function value: may reach any logged callee
	logged := map[string]bool{}
	seenFn := map[*ssa.Function]bool{}
	var scanBlocks func(f *ssa.Function, blocks []*ssa.BasicBlock, inBody func(*ssa.BasicBlock) bool)
	var rootOf func(v ssa.Value) ssa.Value
	rootOf = func(v ssa.Value) ssa.Value {
		switch v := v.(type) {
		case *ssa.FieldAddr:
			return rootOf(v.X)
		case *ssa.IndexAddr:
			if _, ok := types.Unalias(v.X.Type()).Underlying().(*types.Pointer); ok {
				return rootOf(v.X)
			}
			return v
		}
		return v
	}
	noteStore := func(addr ssa.Value) {
		r := rootOf(addr)
		if a, ok := r.(*ssa.Alloc); ok && !a.Heap {
			cells[a] = true
			return
		}
		if fv, ok := addr.(*ssa.FreeVar); ok {
			// a captured variable written by a closure that runs inside the loop: exactly that cell
			if bv, ok := fvBind[fv]; ok && bv.Ptr != nil && bv.Ptr.Cell == nil && bv.Ptr.Base != "" && len(bv.Ptr.Steps) == 0 {
				el := fv.Type().(*types.Pointer).Elem()
				if _, isStruct := types.Unalias(el).Underlying().(*types.Struct); !isStruct || isTime(el) || x.TM.IsOpaqueStruct(el) {
					key := x.TM.Key(el)
					name := x.TM.CellArray(key)
					preciseCells[name+"|"+ksort(key)] = append(preciseCells[name+"|"+ksort(key)], bv.Ptr.Base)
					return
				}
			}
		}
		// heap: by the first access step
		switch a := addr.(type) {
		case *ssa.FieldAddr:
			// find the outermost FieldAddr/IndexAddr chain start
			cur := ssa.Value(a)
			var first ssa.Value = a
			for {
				switch c := cur.(type) {
				case *ssa.FieldAddr:
					first = c
					cur = c.X
					continue
				case *ssa.IndexAddr:
					if x.exploded(x.elemTypeOfIndexAddr(c)) {
						break
					}
					first = c
					cur = c.X
					if _, ok := types.Unalias(c.X.Type()).Underlying().(*types.Pointer); ok {
						continue
					}
				}
				break
			}
			switch f := first.(type) {
			case *ssa.FieldAddr:
				pt := types.Unalias(f.X.Type()).Underlying().(*types.Pointer).Elem()
				stt := types.Unalias(pt).Underlying().(*types.Struct)
				n, vs := x.TM.FieldArray(pt, stt, f.Field)
				arrays[n] = "(Array Int " + vs + ")"
			case *ssa.IndexAddr:
				x.noteElem(arrays, x.elemSortOfIndexAddr(f))
			}
		case *ssa.IndexAddr:
			if et := x.elemTypeOfIndexAddr(a); x.exploded(et) {
				stt := types.Unalias(et).Underlying().(*types.Struct)
				for i := 0; i < stt.NumFields(); i++ {
					n, vs := x.TM.FieldArray(et, stt, i)
					arrays[n] = "(Array Int " + vs + ")"
				}
			} else {
				x.noteElem(arrays, x.elemSortOfIndexAddr(a))
			}
		default:
			// store through a plain pointer value
			if pt, ok := types.Unalias(addr.Type()).Underlying().(*types.Pointer); ok {
				el := pt.Elem()
				if stt, ok := types.Unalias(el).Underlying().(*types.Struct); ok && !isTime(el) && !x.TM.IsOpaqueStruct(el) {
					for i := 0; i < stt.NumFields(); i++ {
						n, vs := x.TM.FieldArray(el, stt, i)
						arrays[n] = "(Array Int " + vs + ")"
					}
				} else if arr, ok := types.Unalias(el).Underlying().(*types.Array); ok {
					x.noteElem(arrays, x.TM.Key(arr.Elem()))
				} else {
					x.noteCell(arrays, x.TM.Key(el))
				}
			}
		}
	}
	scanBlocks = func(f *ssa.Function, blocks []*ssa.BasicBlock, inBody func(*ssa.BasicBlock) bool) {
		for _, b := range blocks {
			if !inBody(b) {
				continue
			}
			for _, ins := range b.Instrs {
				switch ins := ins.(type) {
				case *ssa.Go:
					hasGo = true
					if mc, ok := ins.Call.Value.(*ssa.MakeClosure); ok {
						cf := mc.Fn.(*ssa.Function)
						if !seenFn[cf] {
							seenFn[cf] = true
							scanBlocks(cf, cf.Blocks, func(*ssa.BasicBlock) bool { return true })
						}
					}
				case *ssa.Send:
					hasSend = true
				case *ssa.Store:
					ev(heapAllocRoot(ins.Addr), func() { noteStore(ins.Addr) })
				case *ssa.MapUpdate:
					ks, vs, _ := x.mapSorts(ins.Map.Type())
					// a map held in a local of this frame that the loop never assigns is the same map in every
					// iteration: only its row is havocked (decided once the assigned cells are known)
					if ld, ok := ins.Map.(*ssa.UnOp); ok && ld.Op == token.MUL && f == fn {
						if a, ok := ld.X.(*ssa.Alloc); ok && !a.Heap && a.Parent() == fr.Fn {
							mapRows = append(mapRows, mapRow{a, ks, vs})
							continue
						}
					}
					x.noteMap(arrays, ks, vs)
				case *ssa.MakeClosure:
					cf := ins.Fn.(*ssa.Function)
					if !seenFn[cf] {
						seenFn[cf] = true
						scanBlocks(cf, cf.Blocks, func(*ssa.BasicBlock) bool { return true })
					}
				case ssa.CallInstruction:
					cc := ins.Common()
					if cc.IsInvoke() {
						full := "(" + types.TypeString(types.Unalias(cc.Value.Type()), nil) + ")." + cc.Method.Name()
						if fc := x.P.Externs[full]; fc != nil {
							if fc.Logged {
								logged[lastName(full)] = true
							}
							if fc.MayPanic {
								hasMayPanic = true
							}
							for _, ms := range fc.ModSrc {
								x.noteModArrays(nil, fc, ms, arrays, &allHeap)
							}
						}
						continue
					}
					if bi, ok := cc.Value.(*ssa.Builtin); ok {
						switch bi.Name() {
						case "append":
							// writes a fresh backing array only
						case "delete":
							ks, vs, _ := x.mapSorts(cc.Args[0].Type())
							x.noteMap(arrays, ks, vs)
						case "copy":
							if sl, ok := types.Unalias(cc.Args[0].Type()).Underlying().(*types.Slice); ok {
								x.noteElem(arrays, x.TM.Key(sl.Elem()))
							}
						}
						continue
					}
					if cc.StaticCallee() == nil {
						unknownCall = true
						// a call through a function value (e.g. the yield of a range-over-func iterator): when the
						// value is a known closure of an enclosing frame its body is part of the loop; otherwise
						// nothing is known about what it writes
						resolved := false
						for fi := len(st.Frames) - 1; fi >= 0 && !resolved; fi-- {
							rv, ok := st.Frames[fi].Regs[cc.Value]
							if ld, isLd := cc.Value.(*ssa.UnOp); !ok && isLd && ld.Op == token.MUL {
								// naive SSA form: the function value is loaded from the local cell of a parameter
								// or variable that the loop does not assign
								if a, isA := ld.X.(*ssa.Alloc); isA && !cells[a] {
									rv, ok = st.Frames[fi].Locals[a]
								}
							}
							if ok && rv.Clo != nil {
								resolved = true
								cfn := rv.Clo.Fn
								for bi, fv := range cfn.FreeVars {
									if bi < len(rv.Clo.Bindings) {
										fvBind[fv] = rv.Clo.Bindings[bi]
									}
								}
								if !seenFn[cfn] {
									seenFn[cfn] = true
									scanBlocks(cfn, cfn.Blocks, func(*ssa.BasicBlock) bool { return true })
								}
							}
						}
						if !resolved {
							if os.Getenv("GOVC_DEBUG_LOOP") != "" {
								fmt.Fprintf(os.Stderr, "loop havoc: unresolved function value %s in %s (%T)\n", cc.Value.Name(), f.Name(), cc.Value)
							}
							allHeap = true
						}
					}
					if callee := cc.StaticCallee(); callee != nil {
						if callee.Parent() != nil {
							if !seenFn[callee] {
								seenFn[callee] = true
								scanBlocks(callee, callee.Blocks, func(*ssa.BasicBlock) bool { return true })
							}
							continue
						}
						fc := x.P.Contracts[callee.String()]
						if fc == nil {
							fc = x.P.Externs[callee.String()]
						}
						if fc != nil {
							if fc.Logged {
								logged[lastName(strings.ReplaceAll(callee.String(), x.P.ModPath+"/", ""))] = true
							}
							if fc.MayPanic {
								hasMayPanic = true
							}
							for _, cn := range fc.CallsDecl {
								logged[x.callKey(st, cn)] = true
							}
							if fc.Inline && !seenFn[callee] {
								seenFn[callee] = true
								scanBlocks(callee, callee.Blocks, func(*ssa.BasicBlock) bool { return true })
							}
							if len(fc.ModSrc) > 0 {
								// conservative: any callee modifies => havoc arrays named by field
								for _, ms := range fc.ModSrc {
									ms := ms
									ev(heapAllocRoot(x.modActual(callee, fc, ms, cc)), func() { x.noteModArrays(callee, fc, ms, arrays, &allHeap) })
								}
							}
						}
					}
					// string -> []byte conversions etc. allocate in E.Int; handled via Convert below
				}
			}
		}
	}
	scanBlocks(fn, fn.Blocks, func(b *ssa.BasicBlock) bool { return l.Body[b] })
	preciseRows := map[string][]string{} // map array -> rows (map references) to havoc
	for _, mr := range mapRows {
		lv, ok := fr.Locals[mr.alloc]
		if cells[mr.alloc] || !ok || lv.Term == "" {
			x.noteMap(direct, mr.ks, mr.vs)
			continue
		}
		preciseRows[x.TM.MapHas(mr.ks, mr.vs)+"|"+fmt.Sprintf("(Array %s Bool)", mr.ks)] = append(preciseRows[x.TM.MapHas(mr.ks, mr.vs)+"|"+fmt.Sprintf("(Array %s Bool)", mr.ks)], lv.Term)
		preciseRows[x.TM.MapVal(mr.ks, mr.vs)+"|"+fmt.Sprintf("(Array %s %s)", mr.ks, mr.vs)] = append(preciseRows[x.TM.MapVal(mr.ks, mr.vs)+"|"+fmt.Sprintf("(Array %s %s)", mr.ks, mr.vs)], lv.Term)
	}
	arrays = map[string]string{}
	for k, v := range direct {
		arrays[k] = v
	}
	for k, v := range evArrays {
		arrays[k] = v
	}
	// havoc cells of this frame
	var cl []*ssa.Alloc
	for a := range cells {
		cl = append(cl, a)
	}
	sort.Slice(cl, func(i, j int) bool { return cl[i].Pos() < cl[j].Pos() })
	for _, a := range cl {
		// the cell may belong to an outer frame (closure capturing is via heap, so only current frame)
		owner := fr
		if a.Parent() != fr.Fn {
			for _, f2 := range st.Frames {
				if f2.Fn == a.Parent() {
					owner = f2
				}
			}
		}
		if _, ok := owner.Locals[a]; !ok {
			continue // not yet allocated (declared inside the loop)
		}
		el := a.Type().(*types.Pointer).Elem()
		nm := a.Comment
		if nm == "" {
			nm = "tmp"
		}
		v := x.mk(x.D.Fresh("h."+nm, x.TM.Sort(el)), el)
		x.assumeTypeInv(st, v, false)
		owner.Locals[a] = v
	}
	if allHeap {
		x.epochSeq++
		st.Epoch = x.epochSeq
		for _, n := range sortedKeys(st.Heap) {
			if _, ok := arrays[n]; !ok {
				arrays[n] = x.arraySortFull(n)
			}
		}
	}
	for _, n := range sortedKeys(arrays) {
		srt := arrays[n]
		if srt == "" {
			continue
		}
		if _, d := direct[n]; !d && !impreciseEv[n] && !allHeap && len(precise[n]) > 0 && strings.HasPrefix(srt, "(Array Int ") {
			// every write in the loop hits a known heap cell: havoc only those cells (allocated before the loop)
			vs := strings.TrimSuffix(strings.TrimPrefix(srt, "(Array Int "), ")")
			cur, ok := st.Heap[n]
			if !ok {
				cur = x.D.Const(fmt.Sprintf("%s@%d", n, st.Epoch), srt)
			}
			seen := map[*ssa.Alloc]bool{}
			for _, a := range precise[n] {
				if seen[a] {
					continue
				}
				seen[a] = true
				for _, f2 := range st.Frames {
					if rv, ok := f2.Regs[a]; ok && rv.Ptr != nil && rv.Ptr.Base != "" {
						cur = Store(cur, rv.Ptr.Base, x.D.Fresh("hc", vs))
					}
				}
			}
			st.Heap[n] = cur
			continue
		}
		// make sure the base constant exists (so that later lookups find the sort), then havoc
		st.Heap[n] = x.D.Fresh("hl."+n, srt)
	}
	for _, key := range sortedKeys(preciseRows) {
		i := strings.Index(key, "|")
		n, rowSort := key[:i], key[i+1:]
		if _, whole := arrays[n]; whole || allHeap {
			continue // already havocked as a whole
		}
		cur := x.heapArr(st, n, SInt, rowSort)
		done := map[string]bool{}
		for _, ref := range preciseRows[key] {
			if !done[ref] {
				done[ref] = true
				cur = Store(cur, ref, x.D.Fresh("hrow", rowSort))
			}
		}
		st.Heap[n] = cur
	}
	for _, key := range sortedKeys(preciseCells) {
		i := strings.Index(key, "|")
		n, vs := key[:i], key[i+1:]
		if _, whole := arrays[n]; whole || allHeap {
			continue
		}
		cur := x.heapArr(st, n, SInt, vs)
		done := map[string]bool{}
		for _, ref := range preciseCells[key] {
			if !done[ref] {
				done[ref] = true
				cur = Store(cur, ref, x.D.Fresh("hcell", vs))
			}
		}
		st.Heap[n] = cur
	}
	// allocation counter
	nb := x.D.Fresh("A", SInt)
	st.Assume(fmt.Sprintf("(>= %s %s)", nb, st.AllocTerm()))
	noteAllocBase(nb, st.AllocBase, st.AllocOff)
	st.AllocBase, st.AllocOff = nb, 0
	// iterators of map ranges: visited set
	if l.IsMapRange {
		for _, ins := range l.Head.Instrs {
			if nx, ok := ins.(*ssa.Next); ok {
				if itv, ok := fr.Regs[nx.Iter]; ok && itv.Iter != nil {
					nit := *itv.Iter
					nit.Visited = x.D.Fresh("visited", fmt.Sprintf("(Array %s Bool)", nit.KSort))
					fr.Regs[nx.Iter] = Value{Iter: &nit, Typ: itv.Typ}
				}
			}
		}
	}
	if hasGo {
		st.Ghost["go.lentAny"] = x.D.Fresh("lentany", SBool)
		for _, k := range sortedKeys(st.Ghost) {
			if strings.HasPrefix(k, "lent:") {
				st.Ghost[k] = x.D.Fresh("lent", "(Array Int Bool)")
			}
		}
		// lent sets first created inside the loop: materialise those named by owns clauses lazily (see loopEnv)
		st.Ghost["go.havocLent"] = "true"
	}
	if hasSend {
		for _, k := range sortedKeys(st.Ghost) {
			if strings.HasPrefix(k, "chanlen:") {
				n := x.D.Fresh("chanlen", SInt)
				st.Assume(fmt.Sprintf("(>= %s %s)", n, st.Ghost[k]))
				st.Ghost[k] = n
			}
		}
	}
	if hasMayPanic {
		st.Ghost["componentPanicked"] = x.D.Fresh("panicked", SBool)
	}
	// call records of callees the loop may reach are no longer addressable (earlier iterations); the others stay
	inLoop := func(name string) bool {
		if unknownCall || hasGo {
			return true
		}
		for k := range logged {
			if k == name || strings.HasSuffix(k, "."+name) || strings.HasSuffix(name, "."+k) {
				return true
			}
		}
		return false
	}
	var kept []CallRec
	for _, r := range st.CallLog {
		if !inLoop(r.Name) {
			kept = append(kept, r)
		}
	}
	st.CallLog = kept
	// call counters
	for k := range logged {
		if _, ok := st.Calls[k]; !ok {
			st.Calls[k] = "0"
		}
	}
	for _, k := range sortedKeys(st.Calls) {
		if !inLoop(k) {
			continue
		}
		c := x.D.Fresh("nc."+k, SInt)
		st.Assume(fmt.Sprintf("(>= %s %s)", c, st.Calls[k]))
		st.Calls[k] = c
	}
	// ghost lent set etc. stay (goroutine loops handle their own)
}

func (x *Exec) noteModArrays(callee *ssa.Function, fc *FuncContract, ms string, arrays map[string]string, allHeap *bool) {
	ms = strings.TrimSpace(ms)
	// resolve statically by type of the expression root where possible; fall back to havoc-all
	switch {
	case strings.HasPrefix(ms, "*") && strings.Contains(ms, "type(*"):
		// *unbox(x, type(*T)): the cell/object arrays of T
		i := strings.Index(ms, "type(*")
		j := matchParen(ms, i+4)
		if j > 0 {
			if t, err := x.P.ResolveType(ms[i+6:j], x.P.FileOf[fc]); err == nil {
				x.noteObjectArrays(t, arrays)
				return
			}
		}
		*allHeap = true
	case strings.HasPrefix(ms, "*"):
		root := strings.TrimSpace(ms[1:])
		if callee != nil {
			for _, p := range callee.Params {
				if p.Name() == root {
					if pt, ok := types.Unalias(p.Type()).Underlying().(*types.Pointer); ok {
						x.noteObjectArrays(pt.Elem(), arrays)
						return
					}
				}
			}
		}
		*allHeap = true
	case strings.HasSuffix(ms, "[*]"), strings.HasSuffix(ms, "{}"):
		*allHeap = true
	default:
		if i := strings.LastIndex(ms, "."); i > 0 {
			root := ms[:i]
			field := ms[i+1:]
			if callee != nil {
				for _, p := range callee.Params {
					if p.Name() == root {
						if pt, ok := types.Unalias(p.Type()).Underlying().(*types.Pointer); ok {
							if stt, ok := types.Unalias(pt.Elem()).Underlying().(*types.Struct); ok {
								if idx, _ := findField(stt, field); idx >= 0 {
									n, vs := x.TM.FieldArray(pt.Elem(), stt, idx)
									arrays[n] = "(Array Int " + vs + ")"
									return
								}
							}
						}
					}
				}
			}
		}
		*allHeap = true
	}
}

func (x *Exec) elemSortOfIndexAddr(a *ssa.IndexAddr) string {
	switch u := types.Unalias(a.X.Type()).Underlying().(type) {
	case *types.Slice:
		return x.TM.Key(u.Elem())
	case *types.Pointer:
		return x.TM.Key(types.Unalias(u.Elem()).Underlying().(*types.Array).Elem())
	}
	return SInt
}

// arraySortFull returns the full sort "(Array I V)" of heap array name from its @0 declaration.
func (x *Exec) arraySortFull(arr string) string {
	pre := "(declare-const " + arr + "@"
	for _, l := range x.D.order {
		if strings.HasPrefix(l, pre) {
			rest := l[len(pre):]
			if i := strings.Index(rest, " "); i >= 0 {
				return strings.TrimSuffix(rest[i+1:], ")")
			}
		}
	}
	return ""
}

// ---------- goroutines, channels, select (ownership rule) — see gor.go

var _ = token.ADD

func (x *Exec) noteElem(arrays map[string]string, es string) {
	arrays[x.TM.ElemArray(es)] = fmt.Sprintf("(Array Int (Array Int %s))", ksort(es))
}
func (x *Exec) noteCell(arrays map[string]string, s string) {
	arrays[x.TM.CellArray(s)] = fmt.Sprintf("(Array Int %s)", ksort(s))
}
func (x *Exec) noteMap(arrays map[string]string, ks, vs string) {
	arrays[x.TM.MapHas(ks, vs)] = fmt.Sprintf("(Array Int (Array %s Bool))", ks)
	arrays[x.TM.MapVal(ks, vs)] = fmt.Sprintf("(Array Int (Array %s %s))", ks, vs)
}

func (x *Exec) elemTypeOfIndexAddr(a *ssa.IndexAddr) types.Type {
	switch u := types.Unalias(a.X.Type()).Underlying().(type) {
	case *types.Slice:
		return u.Elem()
	case *types.Pointer:
		return types.Unalias(u.Elem()).Underlying().(*types.Array).Elem()
	}
	return types.Typ[types.Int]
}

// noteObjectArrays: all heap arrays that hold an object of type t.
func (x *Exec) noteObjectArrays(t types.Type, arrays map[string]string) {
	if stt, ok := types.Unalias(t).Underlying().(*types.Struct); ok && !isTime(t) && !x.TM.IsOpaqueStruct(t) {
		for i := 0; i < stt.NumFields(); i++ {
			n, vs := x.TM.FieldArray(t, stt, i)
			arrays[n] = "(Array Int " + vs + ")"
		}
		return
	}
	if arr, ok := types.Unalias(t).Underlying().(*types.Array); ok {
		x.noteElem(arrays, x.TM.Key(arr.Elem()))
		return
	}
	x.noteCell(arrays, x.TM.Key(t))
}

// modActual finds the actual argument of a call that a callee's `*p` / `p.f` / `*unbox(p, ...)` modifies item
// refers to (nil when it cannot be determined).
func (x *Exec) modActual(callee *ssa.Function, fc *FuncContract, ms string, cc *ssa.CallCommon) ssa.Value {
	ms = strings.TrimSpace(ms)
	root := ms
	if strings.HasPrefix(root, "*") {
		root = strings.TrimSpace(root[1:])
	}
	if strings.HasPrefix(root, "unbox(") {
		root = root[6:]
		if i := strings.Index(root, ","); i >= 0 {
			root = strings.TrimSpace(root[:i])
		}
	} else if i := strings.Index(root, "."); i >= 0 {
		root = root[:i]
	}
	var names []string
	if fc.Extern || fc.Iface {
		names = fc.Params
	} else if callee != nil {
		names = paramNames(callee)
	}
	for i, n := range names {
		if n == root && i < len(cc.Args) {
			return cc.Args[i]
		}
	}
	return nil
}
