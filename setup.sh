#!/bin/sh
# Builds the verifier from vendored sources only (offline).
cd "$(dirname "$0")/govc" || exit 2
export GOFLAGS=-mod=vendor GOPROXY=off GOSUMDB=off GOTOOLCHAIN=local
mkdir -p ../bin ../out ../evidence
go build -o ../bin/govc . || exit 2
echo "govc built"
