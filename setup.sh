#!/bin/sh
# Builds the verifier from vendored sources only (offline).
cd "$(dirname "$0")/govc" || exit 2
export GOFLAGS=-mod=vendor GOPROXY=off GOSUMDB=off GOTOOLCHAIN=local
mkdir -p ../bin ../out ../evidence
go build -o ../bin/govc . || exit 2
echo "govc built"
# mutation generator for scripts/automut.py (standard library only; not needed by any check)
(cd ../scripts/automut && GOFLAGS=-mod=mod go build -o ../../bin/automut . 2>/dev/null && echo "automut built") || true
