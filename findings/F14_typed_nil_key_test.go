package signature

import (
	"crypto/rsa"
	"crypto/x509"
	"testing"

	"github.com/notaryproject/notation-core-go/testhelper"
)

func TestF14TypedNilKey(t *testing.T) {
	cert := testhelper.GetRSALeafCertificate().Cert
	defer func() {
		if r := recover(); r != nil {
			t.Fatalf("NewLocalSigner panicked: %v", r)
		}
	}()
	var k *rsa.PrivateKey
	_, err := NewLocalSigner([]*x509.Certificate{cert}, k)
	if err == nil {
		t.Fatal("expected error")
	}
}
