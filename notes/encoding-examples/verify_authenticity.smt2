; Hand-derived obligations for signature.VerifyAuthenticity (signature/signer.go:131-146), written the way
; the generator is meant to emit them (DESIGN.md §2.4-2.6).  One (push)(pop) block per obligation;
; every block must answer unsat.  Design note only - nothing reads this file.
(set-option :produce-models true)
(set-logic ALL)
; ---- sorts: Ref = Int (nil = 0); Bytes, Any uninterpreted
(declare-sort Bytes 0)
(declare-sort Any 0)
(declare-fun tag (Any) Int)
(declare-const any_nil Any)
(assert (= (tag any_nil) 0))
(assert (forall ((a Any)) (! (=> (= (tag a) 0) (= a any_nil)) :pattern ((tag a)))))
(define-fun TAG_pInvalidArgumentError () Int 101)
(define-fun TAG_pSignatureAuthenticityError () Int 102)
(declare-fun box_ptr (Int Int) Any)                 ; (type tag, ref) -> interface value
(assert (forall ((t Int) (r Int)) (! (= (tag (box_ptr t r)) t) :pattern ((box_ptr t r)))))
; ---- pre-state memory (immutable: the function has `modifies nothing`)
(declare-fun SignerInfo.CertificateChain.base (Int) Int)
(declare-fun SignerInfo.CertificateChain.len (Int) Int)
(declare-fun elem_ref (Int Int) Int)                ; element i of a pre-state []*T backing array
(declare-fun Cert.Raw (Int) Bytes)
(assert (forall ((r Int)) (! (>= (SignerInfo.CertificateChain.len r) 0) :pattern ((SignerInfo.CertificateChain.len r)))))
; ---- assumed contract of (*x509.Certificate).Equal  (x509.go:825-830), pure
(declare-fun Cert.Equal (Int Int) Bool)
(assert (forall ((c Int) (o Int)) (! (=> (and (not (= c 0)) (not (= o 0))) (= (Cert.Equal c o) (= (Cert.Raw c) (Cert.Raw o)))) :pattern ((Cert.Equal c o)))))
; ---- parameters
(declare-const signerInfo Int)
(declare-const trusted.base Int)
(declare-const trusted.len Int)
(assert (>= trusted.len 0))
(define-fun chain.len () Int (SignerInfo.CertificateChain.len signerInfo))
(define-fun chain ((i Int)) Int (elem_ref (SignerInfo.CertificateChain.base signerInfo) i))
(define-fun trust ((j Int)) Int (elem_ref trusted.base j))
(define-fun RawEq ((a Int) (b Int)) Bool (= (Cert.Raw a) (Cert.Raw b)))
; ---- requires
(assert (=> (not (= signerInfo 0)) (forall ((i Int)) (! (=> (and (<= 0 i) (< i chain.len)) (not (= (chain i) 0))) :pattern ((chain i))))))
(assert (forall ((j Int)) (! (=> (and (<= 0 j) (< j trusted.len)) (not (= (trust j) 0))) :pattern ((trust j)))))
; ---- postcondition as a macro over (result, err)
(define-fun Match ((i Int) (j Int)) Bool (and (<= 0 i) (< i chain.len) (<= 0 j) (< j trusted.len) (RawEq (chain i) (trust j))))
(define-fun Post ((result Int) (err Any)) Bool
  (and
    ; E1  err==nil <==> arguments valid and some chain certificate is byte-identical to a trusted one
    (= (= err any_nil) (and (> trusted.len 0) (not (= signerInfo 0)) (exists ((i Int) (j Int)) (Match i j))))
    ; E2  the returned certificate is the trust-list entry equal to the leaf-most matching chain certificate
    (=> (= err any_nil)
        (exists ((i0 Int) (j0 Int))
          (and (Match i0 j0) (= result (trust j0))
               (forall ((i Int) (j Int)) (=> (and (< i i0)) (not (Match i j))))
               (forall ((j Int)) (=> (< j j0) (not (Match i0 j)))))))
    ; E3/E4 error classes
    (=> (or (= trusted.len 0) (= signerInfo 0)) (= (tag err) TAG_pInvalidArgumentError))
    (=> (and (> trusted.len 0) (not (= signerInfo 0)) (not (= err any_nil))) (= (tag err) TAG_pSignatureAuthenticityError))))
; ---- loop invariants (loop 0: over the chain, `it0`; loop 1: over the trust list, `it1`)
(define-fun Inv0 ((it0 Int)) Bool
  (and (<= 0 it0) (<= it0 chain.len)
       (forall ((i Int) (j Int)) (=> (< i it0) (not (Match i j))))))
(define-fun Inv1 ((it0 Int) (it1 Int)) Bool
  (and (Inv0 it0) (< it0 chain.len) (<= 0 it1) (<= it1 trusted.len)
       (forall ((j Int)) (=> (< j it1) (not (Match it0 j))))))
; fresh allocations made by the function (¬old, distinct): the two error objects
(declare-const a1 Int) (declare-const a2 Int) (declare-const a3 Int)
(assert (distinct a1 a2 a3 0))

(echo "signature.VerifyAuthenticity#post[return#0: empty trust list]")
(push) (assert (= trusted.len 0))
(assert (not (Post 0 (box_ptr TAG_pInvalidArgumentError a1)))) (check-sat) (pop)

(echo "signature.VerifyAuthenticity#post[return#1: nil signerInfo]")
(push) (assert (not (= trusted.len 0))) (assert (= signerInfo 0))
(assert (not (Post 0 (box_ptr TAG_pInvalidArgumentError a2)))) (check-sat) (pop)

; path condition common to everything below
(assert (not (= trusted.len 0))) (assert (not (= signerInfo 0)))

(echo "signature.VerifyAuthenticity#loop0.entry")
(push) (assert (not (Inv0 0))) (check-sat) (pop)

(declare-const it0 Int) (declare-const it1 Int)
(echo "signature.VerifyAuthenticity#loop1.entry")
(push) (assert (Inv0 it0)) (assert (< it0 chain.len))
(assert (not (Inv1 it0 0))) (check-sat) (pop)

(echo "signature.VerifyAuthenticity#nil[trust.Equal receiver/argument]  (requires of the assumed contract: none; index bounds)")
(push) (assert (Inv1 it0 it1)) (assert (< it1 trusted.len))
(assert (not (and (<= 0 it1) (< it1 trusted.len) (<= 0 it0) (< it0 chain.len)))) (check-sat) (pop)

(echo "signature.VerifyAuthenticity#loop1.preserve")
(push) (assert (Inv1 it0 it1)) (assert (< it1 trusted.len))
(assert (not (Cert.Equal (trust it1) (chain it0))))
(assert (not (Inv1 it0 (+ it1 1)))) (check-sat) (pop)

(echo "signature.VerifyAuthenticity#post[return#2: match]")
(push) (assert (Inv1 it0 it1)) (assert (< it1 trusted.len))
(assert (Cert.Equal (trust it1) (chain it0)))
(assert (not (Post (trust it1) any_nil))) (check-sat) (pop)

(echo "signature.VerifyAuthenticity#loop0.preserve  (inner loop exhausted)")
(push) (assert (Inv1 it0 it1)) (assert (not (< it1 trusted.len)))
(assert (not (Inv0 (+ it0 1)))) (check-sat) (pop)

(echo "signature.VerifyAuthenticity#post[return#3: no match]")
(push) (assert (Inv0 it0)) (assert (not (< it0 chain.len)))
(assert (not (Post 0 (box_ptr TAG_pSignatureAuthenticityError a3)))) (check-sat) (pop)

(echo "vacuity: requires and invariants are jointly satisfiable with a non-trivial state (must be sat)")
(push) (assert (Inv1 it0 it1)) (assert (> it0 0)) (assert (> it1 0)) (assert (< it1 trusted.len)) (check-sat) (pop)
