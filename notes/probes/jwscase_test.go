package probes

import (
	"crypto"
	"crypto/rand"
	"crypto/rsa"
	"crypto/sha256"
	"encoding/base64"
	"encoding/json"
	"fmt"
	"testing"
	"time"

	"github.com/notaryproject/notation-core-go/signature"
	"github.com/notaryproject/notation-core-go/testhelper"
)

// hand-made JWS signed with PS256/SHA-256 whatever the key size
func signJWS(t *testing.T, hdr string, k *rsa.PrivateKey, certRaw []byte) []byte {
	p := base64.RawURLEncoding.EncodeToString([]byte(hdr))
	pl := base64.RawURLEncoding.EncodeToString([]byte(`{"a":1}`))
	h := sha256.Sum256([]byte(p + "." + pl))
	sig, err := rsa.SignPSS(rand.Reader, k, crypto.SHA256, h[:], &rsa.PSSOptions{SaltLength: rsa.PSSSaltLengthEqualsHash})
	if err != nil {
		t.Fatal(err)
	}
	env := map[string]any{"payload": pl, "protected": p, "signature": base64.RawURLEncoding.EncodeToString(sig),
		"header": map[string]any{"x5c": [][]byte{certRaw}}}
	b, _ := json.Marshal(env)
	return b
}

func verify(name string, b []byte) {
	e, err := signature.ParseEnvelope("application/jose+json", b)
	if err != nil {
		fmt.Println(name, "=> parse error:", err)
		return
	}
	c, err := e.Verify()
	if err != nil {
		fmt.Println(name, "=> rejected:", err)
		return
	}
	a := c.SignerInfo.SignedAttributes
	fmt.Println(name, "=> ACCEPTED alg:", c.SignerInfo.SignatureAlgorithm, "scheme:", a.SigningScheme, "expiry:", a.Expiry, "ext:", a.ExtendedAttributes)
}

// F12: RSA-3072 key (dictates PS384), signature made and checked with PS256, reported as PS384 (=2)
func TestAlgCase(t *testing.T) {
	k, _ := rsa.GenerateKey(rand.Reader, 3072)
	tuple := testhelper.GetRSASelfSignedCertTupleWithPK(k, "ss3072")
	now := time.Now().UTC().Truncate(time.Second).Format(time.RFC3339)
	hdr := `{"alg":"PS256","ALG":"PS384","cty":"x","crit":["io.cncf.notary.signingScheme"],"io.cncf.notary.signingScheme":"notary.x509","io.cncf.notary.signingTime":"` + now + `"}`
	verify("F12 alg/ALG", signJWS(t, hdr, k, tuple.Cert.Raw))
}

// F13: the only scheme header is a case variant
func TestSchemeCase(t *testing.T) {
	k, _ := rsa.GenerateKey(rand.Reader, 2048)
	tuple := testhelper.GetRSASelfSignedCertTupleWithPK(k, "ss2048")
	now := time.Now().UTC().Truncate(time.Second).Format(time.RFC3339)
	hdr := `{"alg":"PS256","cty":"x","crit":["io.cncf.notary.signingScheme"],"IO.CNCF.NOTARY.SIGNINGSCHEME":"notary.x509","io.cncf.notary.signingTime":"` + now + `"}`
	verify("F13 upper-case scheme header", signJWS(t, hdr, k, tuple.Cert.Raw))
}
