package probes

import (
	"crypto/x509"
	"fmt"
	"testing"
	"time"

	"github.com/notaryproject/notation-core-go/signature"
	"github.com/notaryproject/notation-core-go/signature/cose"
	"github.com/notaryproject/notation-core-go/signature/jws"
	"github.com/notaryproject/notation-core-go/testhelper"
)

func newSigner(t *testing.T) signature.Signer {
	leaf := testhelper.GetRSALeafCertificate()
	root := testhelper.GetRSARootCertificate()
	s, err := signature.NewLocalSigner([]*x509.Certificate{leaf.Cert, root.Cert}, leaf.PrivateKey)
	if err != nil {
		t.Fatal(err)
	}
	return s
}

func req(t *testing.T, payload string, attrs []signature.Attribute) *signature.SignRequest {
	return &signature.SignRequest{
		Payload:                  signature.Payload{ContentType: "application/vnd.cncf.notary.payload.v1+json", Content: []byte(payload)},
		Signer:                   newSigner(t),
		SigningTime:              time.Now(),
		SigningScheme:            signature.SigningSchemeX509,
		ExtendedSignedAttributes: attrs,
	}
}

func try(name string, f func() ([]byte, error)) {
	defer func() {
		if r := recover(); r != nil {
			fmt.Printf("%s: PANIC %v\n", name, r)
		}
	}()
	b, err := f()
	fmt.Printf("%s: bytes=%d err=%v\n", name, len(b), err)
}

// F6, F7, F10, F11
func TestSignProbes(t *testing.T) {
	try("F7 jws-null-payload", func() ([]byte, error) { return jws.NewEnvelope().Sign(req(t, "null", nil)) })
	try("F6 jws-bigint", func() ([]byte, error) {
		e := jws.NewEnvelope()
		b, err := e.Sign(req(t, `{"size":12345678901234567890}`, nil))
		if err == nil {
			c, _ := e.Verify()
			fmt.Printf("   payload=%s\n", c.Payload.Content)
		}
		return b, err
	})
	try("F10 cose-unhashable-key", func() ([]byte, error) {
		return cose.NewEnvelope().Sign(req(t, "x", []signature.Attribute{{Key: []byte("k"), Value: 1}}))
	})
	try("F11 jws-expiry-as-extattr", func() ([]byte, error) {
		e := jws.NewEnvelope()
		b, err := e.Sign(req(t, `{"a":1}`, []signature.Attribute{{Key: "io.cncf.notary.expiry", Critical: true, Value: "2099-01-01T00:00:00Z"}}))
		if err == nil {
			c, err2 := e.Verify()
			fmt.Printf("   verify err=%v expiry=%v ext=%v\n", err2, c.SignerInfo.SignedAttributes.Expiry, c.SignerInfo.SignedAttributes.ExtendedAttributes)
		}
		return b, err
	})
	for _, k := range []any{"io.cncf.notary.authenticSigningTime", int64(3), int64(2)} {
		k := k
		try(fmt.Sprintf("F11 cose-attr-key-%v", k), func() ([]byte, error) {
			b, err := cose.NewEnvelope().Sign(req(t, `x`, []signature.Attribute{{Key: k, Value: "evil"}}))
			if err == nil {
				p, _ := cose.ParseEnvelope(b)
				if c, err2 := p.Verify(); err2 == nil {
					fmt.Printf("   verify ok cty=%q ext=%v\n", c.Payload.ContentType, c.SignerInfo.SignedAttributes.ExtendedAttributes)
				} else {
					fmt.Printf("   verify err=%v\n", err2)
				}
			}
			return b, err
		})
	}
}
