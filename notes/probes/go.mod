module probes

go 1.23.0

require github.com/notaryproject/notation-core-go v0.0.0

replace github.com/notaryproject/notation-core-go => /repo
