package probes

import (
	"bytes"
	"context"
	"crypto"
	"crypto/ecdsa"
	"crypto/elliptic"
	"crypto/rand"
	"crypto/x509"
	"crypto/x509/pkix"
	"encoding/asn1"
	"fmt"
	"io"
	"math/big"
	"net/http"
	"testing"
	"time"

	"github.com/notaryproject/notation-core-go/revocation"
	crlutil "github.com/notaryproject/notation-core-go/revocation/crl"
	nx509 "github.com/notaryproject/notation-core-go/x509"
	"golang.org/x/crypto/ocsp"
)

func mk(t *testing.T, tmpl, parent *x509.Certificate, pub crypto.PublicKey, priv crypto.Signer) *x509.Certificate {
	der, err := x509.CreateCertificate(rand.Reader, tmpl, parent, pub, priv)
	if err != nil {
		t.Fatal(err)
	}
	c, err := x509.ParseCertificate(der)
	if err != nil {
		t.Fatal(err)
	}
	return c
}

// F5: self-signed non-CA leaf (same name and key as the root) in a two-certificate chain
func TestSelfSignedLeaf(t *testing.T) {
	k, _ := ecdsa.GenerateKey(elliptic.P256(), rand.Reader)
	name := pkix.Name{CommonName: "same"}
	now := time.Now()
	rootT := &x509.Certificate{SerialNumber: big.NewInt(1), Subject: name, NotBefore: now.Add(-time.Hour), NotAfter: now.Add(time.Hour),
		IsCA: true, BasicConstraintsValid: true, KeyUsage: x509.KeyUsageCertSign}
	root := mk(t, rootT, rootT, &k.PublicKey, k)
	leafT := &x509.Certificate{SerialNumber: big.NewInt(2), Subject: name, NotBefore: now.Add(-time.Hour), NotAfter: now.Add(time.Hour),
		KeyUsage: x509.KeyUsageDigitalSignature, ExtKeyUsage: []x509.ExtKeyUsage{x509.ExtKeyUsageCodeSigning}}
	leaf := mk(t, leafT, root, &k.PublicKey, k)
	fmt.Println("F5 leaf self sig:", leaf.CheckSignature(leaf.SignatureAlgorithm, leaf.RawTBSCertificate, leaf.Signature), "issuer==subject:", bytes.Equal(leaf.RawIssuer, leaf.RawSubject))
	fmt.Println("F5 ValidateCodeSigningCertChain([selfsigned-leaf, root]) =", nx509.ValidateCodeSigningCertChain([]*x509.Certificate{leaf, root}, nil))
}

type rt func(*http.Request) (*http.Response, error)

func (f rt) RoundTrip(r *http.Request) (*http.Response, error) { return f(r) }

func serve(body []byte) *http.Client {
	return &http.Client{Transport: rt(func(r *http.Request) (*http.Response, error) {
		return &http.Response{StatusCode: 200, Body: io.NopCloser(bytes.NewReader(body)), Header: http.Header{}}, nil
	})}
}

// F4: OCSP "Good" signed by a sibling without id-kp-OCSPSigning, and by the checked certificate itself
func TestOCSPResponderAuthorisation(t *testing.T) {
	rk, _ := ecdsa.GenerateKey(elliptic.P256(), rand.Reader)
	lk, _ := ecdsa.GenerateKey(elliptic.P256(), rand.Reader)
	sk, _ := ecdsa.GenerateKey(elliptic.P256(), rand.Reader)
	now := time.Now()
	rootT := &x509.Certificate{SerialNumber: big.NewInt(1), Subject: pkix.Name{CommonName: "root"}, NotBefore: now.Add(-time.Hour), NotAfter: now.Add(time.Hour),
		IsCA: true, BasicConstraintsValid: true, KeyUsage: x509.KeyUsageCertSign | x509.KeyUsageCRLSign}
	root := mk(t, rootT, rootT, &rk.PublicKey, rk)
	leafT := &x509.Certificate{SerialNumber: big.NewInt(2), Subject: pkix.Name{CommonName: "leaf"}, NotBefore: now.Add(-time.Hour), NotAfter: now.Add(time.Hour),
		KeyUsage: x509.KeyUsageDigitalSignature, ExtKeyUsage: []x509.ExtKeyUsage{x509.ExtKeyUsageCodeSigning}, OCSPServer: []string{"http://ocsp.example/"}}
	leaf := mk(t, leafT, root, &lk.PublicKey, rk)
	sibT := &x509.Certificate{SerialNumber: big.NewInt(3), Subject: pkix.Name{CommonName: "sibling"}, NotBefore: now.Add(-time.Hour), NotAfter: now.Add(time.Hour),
		KeyUsage: x509.KeyUsageDigitalSignature, ExtKeyUsage: []x509.ExtKeyUsage{x509.ExtKeyUsageCodeSigning}}
	sib := mk(t, sibT, root, &sk.PublicKey, rk)
	chain := []*x509.Certificate{leaf, root}
	tmpl := ocsp.Response{Status: ocsp.Good, SerialNumber: leaf.SerialNumber, ThisUpdate: now, NextUpdate: now.Add(time.Hour)}
	tmpl.Certificate = sib
	der, err := ocsp.CreateResponse(root, sib, tmpl, sk)
	if err != nil {
		t.Fatal(err)
	}
	v, _ := revocation.NewWithOptions(revocation.Options{OCSPHTTPClient: serve(der)})
	res, err := v.ValidateContext(context.Background(), revocation.ValidateContextOptions{CertChain: chain})
	fmt.Println("F4 signed by sibling w/o OCSPSigning EKU:", res[0].Result, err)
	tmpl.Certificate = leaf
	der, _ = ocsp.CreateResponse(root, leaf, tmpl, lk)
	v, _ = revocation.NewWithOptions(revocation.Options{OCSPHTTPClient: serve(der)})
	res, err = v.ValidateContext(context.Background(), revocation.ValidateContextOptions{CertChain: chain})
	fmt.Println("F4 signed by the checked certificate itself:", res[0].Result, err)
}

type fx struct{ b *crlutil.Bundle }

func (f fx) Fetch(ctx context.Context, url string) (*crlutil.Bundle, error) { return f.b, nil }

// F3 (invalidity date short-circuit) and F2 (CRL number missing on one of base/delta)
func TestCRL(t *testing.T) {
	rk, _ := ecdsa.GenerateKey(elliptic.P256(), rand.Reader)
	lk, _ := ecdsa.GenerateKey(elliptic.P256(), rand.Reader)
	now := time.Now()
	rootT := &x509.Certificate{SerialNumber: big.NewInt(1), Subject: pkix.Name{CommonName: "root"}, NotBefore: now.Add(-time.Hour), NotAfter: now.Add(time.Hour),
		IsCA: true, BasicConstraintsValid: true, KeyUsage: x509.KeyUsageCertSign | x509.KeyUsageCRLSign, SubjectKeyId: []byte{1}}
	root := mk(t, rootT, rootT, &rk.PublicKey, rk)
	leafT := &x509.Certificate{SerialNumber: big.NewInt(2), Subject: pkix.Name{CommonName: "leaf"}, NotBefore: now.Add(-time.Hour), NotAfter: now.Add(time.Hour),
		KeyUsage: x509.KeyUsageDigitalSignature, ExtKeyUsage: []x509.ExtKeyUsage{x509.ExtKeyUsageCodeSigning}, CRLDistributionPoints: []string{"http://crl.example/a"}}
	leaf := mk(t, leafT, root, &lk.PublicKey, rk)
	chain := []*x509.Certificate{leaf, root}
	signing := now.Add(-30 * time.Minute)
	inv, _ := asn1.MarshalWithParams(now.Add(-10*time.Minute).UTC(), "generalized")
	mkcrl := func(num *big.Int, entries []x509.RevocationListEntry, extra []pkix.Extension) *x509.RevocationList {
		der, err := x509.CreateRevocationList(rand.Reader, &x509.RevocationList{Number: num, ThisUpdate: now, NextUpdate: now.Add(time.Hour), RevokedCertificateEntries: entries, ExtraExtensions: extra}, root, rk)
		if err != nil {
			t.Fatal(err)
		}
		rl, err := x509.ParseRevocationList(der)
		if err != nil {
			t.Fatal(err)
		}
		return rl
	}
	base := mkcrl(big.NewInt(5), []x509.RevocationListEntry{
		{SerialNumber: big.NewInt(2), RevocationTime: now.Add(-20 * time.Minute), ReasonCode: 6, ExtraExtensions: []pkix.Extension{{Id: asn1.ObjectIdentifier{2, 5, 29, 24}, Value: inv}}},
		{SerialNumber: big.NewInt(2), RevocationTime: now.Add(-40 * time.Minute), ReasonCode: 1},
	}, nil)
	v, _ := revocation.NewWithOptions(revocation.Options{CRLFetcher: fx{&crlutil.Bundle{BaseCRL: base}}})
	res, err := v.ValidateContext(context.Background(), revocation.ValidateContextOptions{CertChain: chain, AuthenticSigningTime: signing})
	fmt.Println("F3 [hold with invalidity date after signing time, keyCompromise]:", res[0].Result, err)

	base.Number = nil // what ParseRevocationList yields for a CRL without the CRL number extension
	func() {
		defer func() { fmt.Println("F2 base without number + delta: recovered:", recover()) }()
		bi, _ := asn1.Marshal(big.NewInt(1))
		delta := mkcrl(big.NewInt(6), nil, []pkix.Extension{{Id: asn1.ObjectIdentifier{2, 5, 29, 27}, Critical: true, Value: bi}})
		v, _ := revocation.NewWithOptions(revocation.Options{CRLFetcher: fx{&crlutil.Bundle{BaseCRL: base, DeltaCRL: delta}}})
		res, err := v.ValidateContext(context.Background(), revocation.ValidateContextOptions{CertChain: chain})
		fmt.Println("  result:", res[0].Result, err)
	}()
}
