package probes

import (
	"context"
	"crypto/ecdsa"
	"crypto/elliptic"
	"crypto/rand"
	"crypto/x509"
	"crypto/x509/pkix"
	"fmt"
	"math/big"
	"testing"
	"time"

	"github.com/notaryproject/notation-core-go/revocation"
	"github.com/notaryproject/notation-core-go/signature"
	"github.com/notaryproject/notation-core-go/signature/jws"
	"github.com/notaryproject/notation-core-go/testhelper"
)

// F1: OCSP responder URL that url.Parse rejects (recovered here because the validator re-panics on the caller;
// through ocsp.CheckStatus the same input aborts the process from a goroutine)
func TestOCSPBadURL(t *testing.T) {
	rk, _ := ecdsa.GenerateKey(elliptic.P256(), rand.Reader)
	lk, _ := ecdsa.GenerateKey(elliptic.P256(), rand.Reader)
	now := time.Now()
	rootT := &x509.Certificate{SerialNumber: big.NewInt(1), Subject: pkix.Name{CommonName: "root"}, NotBefore: now.Add(-time.Hour), NotAfter: now.Add(time.Hour),
		IsCA: true, BasicConstraintsValid: true, KeyUsage: x509.KeyUsageCertSign}
	root := mk(t, rootT, rootT, &rk.PublicKey, rk)
	leafT := &x509.Certificate{SerialNumber: big.NewInt(2), Subject: pkix.Name{CommonName: "leaf"}, NotBefore: now.Add(-time.Hour), NotAfter: now.Add(time.Hour),
		KeyUsage: x509.KeyUsageDigitalSignature, ExtKeyUsage: []x509.ExtKeyUsage{x509.ExtKeyUsageCodeSigning}, OCSPServer: []string{"http://%zz"}}
	leaf := mk(t, leafT, root, &lk.PublicKey, rk)
	defer func() { fmt.Println("F1 unparsable OCSP URL: recovered:", recover()) }()
	v, _ := revocation.NewWithOptions(revocation.Options{})
	res, err := v.ValidateContext(context.Background(), revocation.ValidateContextOptions{CertChain: []*x509.Certificate{leaf, root}})
	fmt.Println("  result:", res[0].Result, err)
}

// F8: sign A (ok), then sign B with a signing time outside the chain's validity (fails after the inner
// envelope signed), then read the object
func TestLateSignFailure(t *testing.T) {
	leaf := testhelper.GetRSALeafCertificate()
	root := testhelper.GetRSARootCertificate()
	s, _ := signature.NewLocalSigner([]*x509.Certificate{leaf.Cert, root.Cert}, leaf.PrivateKey)
	mkreq := func(payload string, at time.Time) *signature.SignRequest {
		return &signature.SignRequest{Payload: signature.Payload{ContentType: "x", Content: []byte(payload)}, Signer: s,
			SigningTime: at, SigningScheme: signature.SigningSchemeX509}
	}
	e := jws.NewEnvelope()
	if _, err := e.Sign(mkreq(`{"req":"A"}`, time.Now())); err != nil {
		t.Fatal(err)
	}
	_, err := e.Sign(mkreq(`{"req":"B"}`, leaf.Cert.NotAfter.Add(48*time.Hour)))
	fmt.Println("F8 second Sign error:", err != nil)
	c, err := e.Content()
	if err != nil {
		fmt.Println("F8 Content after failed Sign: error:", err)
	} else {
		fmt.Printf("F8 Content after failed Sign shows payload %s\n", c.Payload.Content)
	}
}
